"""Structured scenario generation shared by the checks: volume layouts, trash directories with well-formed and
malformed entries, victims for trash-put, command lines.  Every random choice comes from the rng passed in
(run.rng, derived from VERIF_SEED), so a disagreement replays exactly."""
import os

HOME = '/home/u'
TI = '[Trash Info]\nPath=%s\nDeletionDate=%s\n'

NAME_POOL = ['a', 'b', 'c', 'foo', 'foobar', 'A', 'a b', 'x%y', 'n\nl', '-r', 'é', '€uro', 'a*', '[a]', 'q?', 'a.trashinfo',
             '.hidden', 'foo.txt', 'Foo', 'x+y', 'tab\tx', 'per%41', '~t', 'a=b', '#h', '...', '....', '.bashrc', 'report ', ' lead', 'end\t',
             # names a well-meaning normalisation would change: a literal tilde, Unicode that is not in normal form C
             '~', 'cafe\u0301', '\u212bngstrom']
DIR_POOL = ['', 'd', 'd/e', 'foo', 'a', 'deep/er/still', 'sp ace', 'é']
DATES = ['2024-01-01T00:00:00', '2023-12-31T23:59:59', '2000-02-29T12:00:00', '1999-12-31T00:00:00', '2024-03-01T10:20:30',
         '2030-01-01T00:00:00', '2024-01-01T00:00:01', '2023-06-15T08:09:10']
BAD_DATES = ['2023-0', '202', '2023-01-0', '2023-01-01T0', '2023-01-01T00:0', '', 'garbage', '2024-13-01T00:00:00', '2024-02-30T00:00:00', '2024-01-01 00:00:00', '2024-01-01T00:00:00x',
             '2024-01-01T24:00:00', '0000-01-01T00:00:00', '2024-1-1T0:0:0']


def quote(p):
    from urllib.parse import quote as q
    return q(p, '/')


class Layout:
    """volumes, home, uid, env and the trash directories that exist"""

    def __init__(self, rng, home_on_own_volume=None, nvols=None, uid=None, top_states=None, nested=None, xdg=None, home_name=None):
        self.rng = rng
        self.uid = rng.choice([0, 1000, 501]) if uid is None else uid
        own = (rng.random() < 0.25) if home_on_own_volume is None else home_on_own_volume
        self.home_vol = '/hv' if own else '/'
        # home_name: a home directory whose name contains characters that mean something to regular expressions / globs / format strings
        self.home = ('/hv' if own else '') + (home_name or HOME)
        nv = rng.choice([1, 1, 2, 3]) if nvols is None else nvols
        self.vols = ['/vol%d' % i for i in range(1, nv + 1)]
        if (rng.random() < 0.2 if nested is None else nested) and self.vols:
            self.vols.append(self.vols[0] + '/nest')
        self.mounts = ([self.home_vol] if own else []) + self.vols
        # a volume root can itself be world-writable and sticky (a scratch volume, like /tmp): that says nothing about its .Trash
        self.tree = [['d', self.home, 0o755]] + [['d', v, rng.choice([0o755, 0o755, 0o755, 0o1777])] for v in self.mounts]
        self.env = {'HOME': self.home}
        x = rng.choice(['unset', 'unset', 'set', 'empty']) if xdg is None else xdg
        if x == 'set':
            self.env['XDG_DATA_HOME'] = self.home + '/xdg'
            self.home_trash = self.home + '/xdg/Trash'
        else:
            if x == 'empty':
                self.env['XDG_DATA_HOME'] = ''
            self.home_trash = self.home + '/.local/share/Trash'
        self.all_vols = ['/'] + self.mounts
        self.env['TRASH_VOLUMES'] = ':'.join(self.all_vols)
        # state of $top/.Trash and $top/.Trash-uid per volume ('/' included)
        self.top = {}
        states = ['absent', 'sticky', 'sticky', 'nonsticky', 'link_sticky', 'link_nonsticky', 'file']
        for i, v in enumerate(self.all_vols):
            st = rng.choice(states) if top_states is None else top_states[i % len(top_states)]
            alt = rng.choice(['absent', 'absent', 'dir', 'file'])
            self.top[v] = [st, alt]
            t = self.j(v, '.Trash')
            # the sticky bit is what counts, whatever the other bits: setgid / setuid without sticky is NOT sticky
            sticky_mode = rng.choice([0o1777, 0o1777, 0o1755, 0o3777, 0o1700])
            plain_mode = rng.choice([0o755, 0o755, 0o777, 0o2777, 0o2775, 0o4755, 0o6777, 0o700, 0o750])    # (private to its owner is still not sticky)
            if st == 'sticky':
                self.tree.append(['d', t, sticky_mode])
            elif st == 'nonsticky':
                self.tree.append(['d', t, plain_mode])
            elif st in ('link_sticky', 'link_nonsticky'):
                real = self.j(v, 'realtrash')
                self.tree.append(['d', real, sticky_mode if st == 'link_sticky' else plain_mode])
                self.tree.append(['l', t, 'realtrash'])
            elif st == 'file':
                self.tree.append(['f', t, 'not a dir'])
            a = self.j(v, '.Trash-%d' % self.uid)
            if alt == 'dir':
                self.tree.append(['d', a, 0o700])
                self.tree.append(['d', a + '/info', 0o700])
                self.tree.append(['d', a + '/files', 0o700])
            elif alt == 'file':
                self.tree.append(['f', a, 'x'])

    @staticmethod
    def j(v, n):
        return (v if v != '/' else '') + '/' + n

    def top1(self, v):
        return self.j(v, '.Trash/%d' % self.uid)

    def top2(self, v):
        return self.j(v, '.Trash-%d' % self.uid)

    def top1_secure(self, v):
        return self.top[v][0] == 'sticky'

    def top1_can_hold(self, v):
        """can nodes be created under $top/.Trash/$uid by the generator?"""
        return self.top[v][0] in ('sticky', 'nonsticky', 'link_sticky', 'link_nonsticky')

    def readable_dirs(self):
        """(trash dir, volume-for-relative-paths as list/empty/rm compute it) the scanner should use"""
        out = [(self.home_trash, '/')]
        for v in self.all_vols:
            if self.top[v][0] == 'sticky':
                out.append((self.top1(v), v))
            if self.top[v][1] == 'dir':
                out.append((self.top2(v), v))
        return out

    def scenario(self, steps, cwd=None, extra=()):
        return {'tree': self.tree + list(extra), 'mounts': list(self.mounts), 'cwd': cwd or self.home, 'uid': self.uid,
                'env': dict(self.env), 'steps': steps}


def entry(td, name, path, date, kind='f', data=None, info_override=None):
    """tree nodes of one trashed entry"""
    info = TI % (quote(path), date) if date is not None else '[Trash Info]\nPath=%s\n' % quote(path)
    if info_override is not None:
        info = info_override
    out = [['f', td + '/info/' + name + '.trashinfo', info]]
    pay = td + '/files/' + name
    if kind == 'f':
        out.append(['f', pay, data if data is not None else 'payload of ' + name])
    elif kind == 'd':
        out.append(['d', pay, 0o755])
        out.append(['f', pay + '/inner', 'inner of ' + name])
        out.append(['d', pay + '/sub', 0o700])
        out.append(['f', pay + '/sub/deep', 'deep'])
        out.append(['l', pay + '/sub/to_canary_dir', '/canary/rodir'])
        out.append(['l', pay + '/to_canary_file', '/canary/file'])
        out.append(['l', pay + '/sub/rel_up', '../../../../../canary/file'])
        out.append(['l', pay + '/sub/dangling', 'no/such'])
    elif kind == 'l':
        out.append(['l', pay, data if data is not None else '/canary/file'])
    elif kind == 'none':
        pass
    return out


MALFORMED = ['non_trashinfo', 'empty', 'truncated', 'binary', 'nonutf8', 'dir_info', 'no_path', 'no_date', 'bad_date',
             'info_only', 'payload_only', 'dot_trashinfo', 'dotdot_trashinfo', 'dup_keys', 'crlf', 'no_header']


def malformed(rng, td, kind, tag):
    n = 'mal%s' % tag
    i = td + '/info/' + n + '.trashinfo'
    if kind == 'non_trashinfo':
        return [['f', td + '/info/' + n + '.txt', 'hello']]
    if kind == 'empty':
        return [['f', i, ''], ['f', td + '/files/' + n, 'p']]
    if kind == 'truncated':
        return [['f', i, '[Trash Info]\nPa'], ['f', td + '/files/' + n, 'p']]
    if kind == 'binary':
        return [['f', i, b'\x00\x01\x02\x7f\x00Path=\x00'], ['f', td + '/files/' + n, 'p']]
    if kind == 'nonutf8':
        return [['f', i, b'[Trash Info]\nPath=/x\xff\xfe\nDeletionDate=2001-01-01T00:00:00\n'], ['f', td + '/files/' + n, 'p']]
    if kind == 'dir_info':
        return [['d', i, 0o755], ['f', td + '/files/' + n, 'p']]
    if kind == 'no_path':
        return [['f', i, '[Trash Info]\nDeletionDate=2001-01-01T00:00:00\n'], ['f', td + '/files/' + n, 'p']]
    if kind == 'no_date':
        return [['f', i, '[Trash Info]\nPath=/home/u/undated%s\n' % tag], ['f', td + '/files/' + n, 'p']]
    if kind == 'bad_date':
        return [['f', i, '[Trash Info]\nPath=/home/u/baddate%s\nDeletionDate=%s\n' % (tag, rng.choice(BAD_DATES))],
                ['f', td + '/files/' + n, 'p']]
    if kind == 'info_only':
        return [['f', i, TI % ('/home/u/infoonly%s' % tag, '2001-01-01T00:00:00')]]
    if kind == 'payload_only':
        return [['f', td + '/files/' + n, 'orphan'], ['d', td + '/info', 0o700]]
    if kind == 'dot_trashinfo':
        return [['f', td + '/info/.trashinfo', TI % ('/home/u/dot%s' % tag, '2001-01-01T00:00:00')]]
    if kind == 'dotdot_trashinfo':
        # info files whose payload name would be '.' or '..': not entries at all (files/. and files/.. are the directory and its parent)
        nm = rng.choice(['..trashinfo', '...trashinfo'])
        return [['f', td + '/info/' + nm, TI % ('/home/u/dots%s' % tag, '2001-01-01T00:00:00')], ['d', td + '/files', 0o700]]
    if kind == 'dup_keys':
        return [['f', i, '[Trash Info]\nPath=/home/u/first%s\nPath=/home/u/second\nDeletionDate=2001-01-01T00:00:00\n'
                         'DeletionDate=2030-01-01T00:00:00\nFoo=bar\n[Other]\nPath=/zzz\n' % tag], ['f', td + '/files/' + n, 'p']]
    if kind == 'crlf':
        return [['f', i, '[Trash Info]\r\nPath=/home/u/crlf%s\r\nDeletionDate=2001-01-01T00:00:00\r\n' % tag], ['f', td + '/files/' + n, 'p']]
    if kind == 'no_header':
        return [['f', i, 'Path=/home/u/nohdr%s\nDeletionDate=2001-01-01T00:00:00\n' % tag], ['f', td + '/files/' + n, 'p']]
    raise ValueError(kind)


def populate(rng, lay, n_entries=None, malformed_rate=0.25, insecure_too=True, rel_in_home=False):
    """fill the layout's trash directories; returns (tree nodes, [entry dicts])"""
    nodes, ents = [], []
    dirs = [(lay.home_trash, '/', 'home', True)]
    for v in lay.all_vols:
        if lay.top1_can_hold(v) and (lay.top1_secure(v) or insecure_too) and rng.random() < 0.7:
            dirs.append((lay.top1(v), v, 'top1', lay.top1_secure(v)))
        if lay.top[v][1] == 'dir':
            dirs.append((lay.top2(v), v, 'top2', True))
    n = rng.randint(0, 6) if n_entries is None else n_entries
    used = set()
    for k in range(n):
        td, vol, kind, usable = rng.choice(dirs)
        name = rng.choice(NAME_POOL)
        if (td, name) in used:
            name = name + '_%d' % k
        used.add((td, name))
        base = rng.choice(NAME_POOL)
        sub = rng.choice(DIR_POOL)
        if kind == 'home' and not rel_in_home:
            root = rng.choice([lay.home, '/', lay.vols[0] if lay.vols else '/'])
            full = os.path.join(root, sub, base)
            pathv = full
        else:
            rel = os.path.join(sub, base)
            if rng.random() < 0.15:
                pathv = full = os.path.join(vol, rel)        # absolute Path in a volume trash dir
            else:
                pathv = rel
                full = os.path.join(vol if kind != 'home' else '/', rel)
        date = rng.choice(DATES)
        pk = rng.choice(['f', 'f', 'f', 'd', 'l', 'l'])
        nodes += entry(td, name, pathv, date, pk, data=(rng.choice(['/canary/file', '/canary/dir', '/canary/rodir', '../../../../canary/dir', 'nowhere']) if pk == 'l' else None))
        ents.append({'td': td, 'vol': vol, 'dirkind': kind, 'usable': usable, 'name': name, 'path': full, 'pathv': pathv,
                     'date': date, 'payload': pk})
    # confusable families in ONE trash directory: names that differ by a '.trashinfo' suffix (X / X.trashinfo share the prefix
    # of their info names), original names that differ only by percent-decoding, the same original path twice, and a path whose
    # escaped form is longer than 4 KiB (80-character CJK components: 1.7 kB on disk, 5 kB in the info file)
    if n and rng.random() < 0.4:
        td, vol, kind, usable = rng.choice(dirs)
        fam = rng.choice(['suffix', 'suffix', 'percent', 'twice', 'long', 'dots'])
        sub = rng.choice(DIR_POOL)
        if fam == 'suffix':
            x = rng.choice(['notes', 'a', 'é'])
            members = [(x, x), (x + '.trashinfo', x + '.trashinfo')] + ([(x + '.trashinfo.trashinfo', 'z')] if rng.random() < 0.3 else [])
        elif fam == 'percent':
            members = rng.choice([[('p1', 'per%41'), ('p2', 'perA')], [('p1', 'r%20f.txt'), ('p2', 'r f.txt')], [('p1', '100%25'), ('p2', '100%')]])
        elif fam == 'twice':
            members = [('same', 'same'), ('same_1', 'same')]
        elif fam == 'dots':
            # files literally named '...trashinfo' / '..trashinfo': a careless suffix cut gives the payload names '..' and '.'
            members = [('...trashinfo', '...trashinfo'), ('..trashinfo', '..trashinfo')]
        else:
            members = [('long', '/'.join(['\u6f22' * 80] * rng.choice([6, 7])) + '/report.txt')]
        two_dates = rng.sample(DATES, 2)
        for i, (name, base) in enumerate(members):
            if (td, name) in used:
                continue
            used.add((td, name))
            if kind == 'home' and not rel_in_home:
                pathv = full = os.path.join(lay.home, sub, base)
            else:
                pathv = os.path.join(sub, base)
                full = os.path.join(vol if kind != 'home' else '/', pathv)
            date = two_dates[i % 2] if fam != 'twice' or rng.random() < 0.5 else two_dates[0]
            pk = rng.choice(['f', 'f', 'd'])
            nodes += entry(td, name, pathv, date, pk)
            ents.append({'td': td, 'vol': vol, 'dirkind': kind, 'usable': usable, 'name': name, 'path': full, 'pathv': pathv,
                         'date': date, 'payload': pk, 'family': fam})
    mal = []
    for k in range(rng.choice([0, 0, 1, 2, 3]) if malformed_rate else 0):
        td, vol, kind, usable = rng.choice(dirs)
        mk = rng.choice(MALFORMED)
        nodes += malformed(rng, td, mk, str(k))
        mal.append({'td': td, 'kind': mk})
    nodes += canary()
    return nodes, ents, mal


def suffix_family(rng, p=0.3):
    """trash names that are confusable when '.trashinfo' is cut off or substituted carelessly: X, X.trashinfo, X.trashinfo.trashinfo"""
    if rng.random() >= p:
        return []
    x = rng.choice(['notes', 'a', '\xe9', 'x y', '.bashrc', '...'])
    fam = [x, x + '.trashinfo'] + ([x + '.trashinfo.trashinfo'] if rng.random() < 0.4 else [])
    rng.shuffle(fam)
    return fam


def canary():
    return [['d', '/canary', 0o755], ['f', '/canary/file', 'canary'], ['d', '/canary/rodir', 0o555],
            ['f', '/canary/rodir/inside', 'inside'], ['d', '/canary/dir', 0o755], ['f', '/canary/dir/x', 'x']]


def read_cmd(rng, lay, ents, allow=('list', 'empty', 'rm', 'restore')):
    """one step of a reading/purging command with plausible arguments"""
    cmd = rng.choice(allow)
    step = {'cmd': cmd, 'argv': [], 'listdir': rng.choice(['sorted', 'reverse', rng.randint(1, 999)])}
    if cmd == 'list':
        if rng.random() < 0.2:
            step['argv'].append('--size')
        if rng.random() < 0.2:
            step['argv'].append('--files')
        if rng.random() < 0.15 and ents:
            step['argv'] += ['--trash-dir', rng.choice(ents)['td']]
    elif cmd == 'empty':
        r = rng.random()
        if r < 0.5:
            step['argv'].append(str(rng.choice([0, 1, 2, 30, 365, 9000, 100000])))
            step['env'] = {'TRASH_DATE': rng.choice(['2024-01-02T00:00:00', '2024-01-01T00:00:00', '2025-01-01T00:00:01', 'bogus'])}
            step['now'] = [2024, 6, 1, 12, 0, 0, 0]
        if rng.random() < 0.25:
            step['argv'].append('--dry-run')
        if rng.random() < 0.3:
            step['argv'].append(rng.choice(['-v', '-vv', '--verbose']))
        r = rng.random()
        if r < 0.3:
            step['argv'].append('-i')
            step['stdin'] = rng.choice(['y\n', 'Y\n', 'n\n', '\n', '', 'yes\n', 'no\n', ' y\n', 'Yep', 'ý\n'])
        elif r < 0.5:
            step['argv'].append('-f')
        elif r < 0.6:
            step['tty'] = True
            step['stdin'] = rng.choice(['y\n', 'n\n', ''])
        if rng.random() < 0.15 and ents:
            step['argv'] += ['--trash-dir', rng.choice(ents)['td']]
    elif cmd == 'rm':
        pats = ['*', 'a', 'foo', 'foo*', '*.txt', '[ab]', '?', 'a*', '/*', 'A', '[!a]*', 'zzz', 'a b', 'x%y', '*\n*']
        if ents:
            e = rng.choice(ents)
            pats += [os.path.basename(e['path']), e['path'], os.path.dirname(e['path']) + '/*']
        step['argv'] = [rng.choice(pats)]
        if rng.random() < 0.05:
            step['argv'] = []
    else:
        step['listed_mounts'] = None
        if rng.random() < 0.4:
            step['argv'].append(rng.choice(['/', lay.home, lay.vols[0] if lay.vols else '/', 'd', '.', '..', lay.home + '/d']))
        if rng.random() < 0.5:
            step['argv'] += ['--sort', rng.choice(['date', 'path', 'none'])]
        if rng.random() < 0.3:
            step['argv'].append('--overwrite')
        if rng.random() < 0.1 and ents:
            step['argv'] += ['--trash-dir', rng.choice(ents)['td']]
        step['stdin'] = rng.choice(['0\n', '1\n', '0,1\n', '0-2\n', '\n', '', '9\n', 'x\n', '1-0\n', '0-1-2\n', '2,0\n', ' 1 \n', '0,0\n'])
    return step


def victims(rng, lay, n=None):
    """entries to be trashed by trash-put: returns (tree nodes, [dict(path, kind)])"""
    nodes, vs = [], []
    roots = [lay.home] + lay.vols + [lay.vols[0] + '/sub'] if lay.vols else [lay.home]
    for k in range(rng.randint(1, 4) if n is None else n):
        root = rng.choice(roots)
        sub = rng.choice(DIR_POOL)
        name = rng.choice(NAME_POOL) + ('%d' % k if rng.random() < 0.5 else '')
        if rng.random() < 0.06:
            # a name so long that <name>.trashinfo exceeds NAME_MAX: trash-put shortens the info name (and the payload name with it)
            name = rng.choice(['L', '\xe9']) * rng.choice([246, 250, 255]) if rng.random() < 0.5 else ('long' * 70)[:rng.choice([246, 249, 255])]
            name = name.encode('utf-8', 'surrogateescape')[:rng.choice([246, 250, 255])].decode('utf-8', 'ignore')
        parent = os.path.join(root, sub) if sub else root
        full = parent + '/' + name
        if any(full == v['path'] or full.startswith(v['path'] + '/') or v['path'].startswith(full + '/') for v in vs):
            continue
        kind = rng.choice(['f', 'f', 'e', 'd', 'lf', 'ld', 'lx'])
        nodes.append(['d', parent, 0o755])
        if kind == 'f':
            nodes.append(['f', full, 'victim %d' % k, rng.choice([0o644, 0o600, 0o755])])
        elif kind == 'e':
            nodes.append(['f', full, ''])
        elif kind == 'd':
            nodes += [['d', full, rng.choice([0o755, 0o700, 0o555, 0o500])], ['f', full + '/in', 'in%d' % k], ['d', full + '/s', 0o755],
                      ['l', full + '/s/lnk', '/canary/file'], ['f', full + '/s/t', 't']]
        elif kind == 'lf':
            nodes.append(['l', full, '/canary/file'])
        elif kind == 'ld':
            nodes.append(['l', full, '/canary'])
        else:
            nodes.append(['l', full, 'nowhere/%d' % k])
        vs.append({'path': full, 'parent': parent, 'name': name, 'kind': kind})
    nodes += canary()
    return nodes, vs


def spelling(rng, v, cwd):
    """a way of writing the victim's path"""
    full, parent, name = v['path'], v['parent'], v['name']
    r = rng.random()
    slashes = '/' * rng.choice([0, 0, 0, 1, 2, 3]) if v['kind'] in ('d',) else ''
    if r < 0.35:
        return full + slashes
    rel = os.path.relpath(full, cwd)
    if r < 0.6:
        return rel + slashes
    if r < 0.75:
        return './' + rel + slashes
    if r < 0.85:
        return os.path.dirname(full) + '/./' + name + slashes
    return os.path.dirname(full) + '//' + name + slashes
