"""Run the real trash-cli commands (their real main()) on a throw-away tree, under a shim that
wraps the os / os.path / shutil / builtins entry points FROM OUTSIDE the repository.

 * every scenario runs in a forked child that chroot()s into a fresh tree under /dev/shm, so the
   paths the program sees ('/', '/home/u', '/vol1/.Trash-0') are position independent and nothing
   can touch the real file system;
 * the shim records the library-boundary calls made by trashcli.* frames (the trace the Coq
   `prog` model must reproduce), counts syscall-level mutations (crash points), virtualises the
   mount table, injects faults/crashes, fixes clock / randint / listdir order / stdin.

A scenario is a plain dict (JSON-able, see DESIGN 8b):
  tree   : [[kind, path, ...]]   'd' path mode | 'f' path content mode | 'l' path target
  mounts : [path]                virtual mount points ('/' is always one)
  cwd, env, uid
  steps  : [{cmd, argv, stdin, now, randints, tty, listdir, plan}]
"""
import errno as _errno
import hashlib
import json
import os
import shutil
import stat as _stat
import sys
import tempfile
import traceback

from common import REPO

BASE = '/dev/shm' if os.path.isdir('/dev/shm') else tempfile.gettempdir()
MT0 = 1_000_000_000          # base mtime given to generated nodes


# ------------------------------------------------------------------------------------------------
# tree building / snapshot (parent side, real paths under `root`)
def _real(root, path):
    assert path.startswith('/')
    return root + path if path != '/' else root


def _inside(root, path, depth=0):
    """the real location of the sandbox path `path` with every symbolic link in a DIRECTORY component resolved inside the sandbox:
    an absolute link target is re-rooted under `root` (outside the chroot the kernel would resolve it against the host's root, and a
    generated tree must never be able to write there)"""
    comps = [c for c in path.split('/') if c not in ('', '.')]
    cur = ''
    for i, c in enumerate(comps):
        if c == '..':
            cur = cur.rsplit('/', 1)[0]
            continue
        nxt = cur + '/' + c
        rn = os.fsencode(root + nxt)
        if i < len(comps) - 1 and os.path.islink(rn) and depth < 20:
            tgt = os.fsdecode(os.readlink(rn))
            base = tgt if tgt.startswith('/') else cur + '/' + tgt
            return _inside(root, base + '/' + '/'.join(comps[i + 1:]), depth + 1)
        cur = nxt
    return root + cur if cur else root


def _build_one(root, ent, i, later):
        kind, path = ent[0], ent[1]
        rp = os.fsencode(_inside(root, path))
        if kind == 'd':
            if os.path.lexists(rp) and not os.path.isdir(rp):
                return
            os.makedirs(rp, exist_ok=True)
            later.append((rp, ent[2] if len(ent) > 2 else 0o755, i))
        elif kind == 'f':
            os.makedirs(os.path.dirname(rp), exist_ok=True)
            if os.path.lexists(rp) and not os.path.isfile(rp):
                return
            data = ent[2]
            if isinstance(data, dict) and '__b' in data:          # bytes as a replay file carries them
                data = bytes.fromhex(data['__b'])
            if isinstance(data, str):
                data = data.encode('utf-8', 'surrogateescape')
            with open(rp, 'wb') as f:
                f.write(data)
            os.chmod(rp, ent[3] if len(ent) > 3 else 0o644)
            mt = MT0 + (ent[4] if len(ent) > 4 else i)              # ['f', path, data, mode, mtime offset]: two files of one age
            os.utime(rp, (mt, mt))
        elif kind == 'l':
            os.makedirs(os.path.dirname(rp), exist_ok=True)
            if os.path.lexists(rp):
                return                      # generated twice: the first definition wins
            os.symlink(os.fsencode(ent[2]), rp)
            os.utime(rp, (MT0 + i, MT0 + i), follow_symlinks=False)


def build_tree(root, tree):
    os.makedirs(root, exist_ok=True)
    os.chmod(root, 0o755)
    later = []
    for i, ent in enumerate(tree):
        try:
            _build_one(root, ent, i, later)
        except (FileExistsError, NotADirectoryError, IsADirectoryError, FileNotFoundError):
            pass          # a generated tree defined the same path twice in conflicting ways (also: below a dangling link): the first definition wins
    for rp, mode, i in reversed(later):
        os.chmod(rp, mode)
        os.utime(rp, (MT0 + i, MT0 + i))


def snapshot(root, with_mtime=True):
    """path -> (kind, mode, digest-or-target, mtime) for every node below root (no symlink followed)"""
    out = {}
    broot = os.fsencode(root)

    def walk(bp, vp):
        try:
            names = sorted(os.listdir(bp))
        except OSError:
            return
        for n in names:
            full = bp + b'/' + n
            v = (vp if vp != '/' else '') + '/' + os.fsdecode(n)
            st = os.lstat(full)
            mt = int(st.st_mtime) if with_mtime else 0
            if _stat.S_ISLNK(st.st_mode):
                out[v] = ('l', 0, os.fsdecode(os.readlink(full)), mt)
            elif _stat.S_ISDIR(st.st_mode):
                out[v] = ('d', _stat.S_IMODE(st.st_mode), '', mt)
                walk(full, v)
            else:
                with open(full, 'rb') as f:
                    data = f.read()
                out[v] = ('f', _stat.S_IMODE(st.st_mode), data if len(data) <= 32768 else hashlib.sha1(data).hexdigest(), mt)
    walk(broot, '/')
    return out


def subtree(snap, path):
    """the part of a snapshot at/below `path`, re-keyed relative to it"""
    pre = path.rstrip('/') + '/'
    out = {}
    for p, v in snap.items():
        if p == path:
            out[''] = v
        elif p.startswith(pre):
            out[p[len(path.rstrip('/')):]] = v
    return out


# ------------------------------------------------------------------------------------------------
# the shim (child side)
class Crash(BaseException):
    pass


class _KbdAtPrompt(KeyboardInterrupt):
    """the user types ^C at a prompt (step option interrupt_input = n): an answer of the prompt, not a kill of the process"""


class Looping(BaseException):
    """the command issued more library-boundary operations than any terminating run could"""
    pass


class Shim:
    MUT_NAMES = ('rename', 'replace', 'unlink', 'remove', 'rmdir', 'mkdir', 'symlink', 'utime', 'chmod', 'link',
                 'truncate', 'chown', 'lchown', 'setxattr', 'sendfile', 'copy_file_range', 'write')

    def __init__(self, step, mounts, uid):
        self.step = step
        self.plan = step.get('plan') or {}
        self.mounts = set(mounts) | {'/'}
        self.uid = uid
        self.trace = []           # library-boundary ops by trashcli.* frames
        self.nmut = 0             # syscall-level mutation counter
        self.muts = []            # names of syscall-level mutations, in order
        self.nlib = 0
        self.randints = list(step.get('randints') or [])
        self.rand_used = []
        self.now_used = 0
        self.orig = {}
        self.depth = 0

    # -- helpers
    def from_trashcli(self, depth=2):
        try:
            name = sys._getframe(depth).f_globals.get('__name__', '')
        except ValueError:
            return False
        return name == 'trashcli' or name.startswith('trashcli.')

    def vol_of(self, path):
        p = os.path.abspath(path)
        # resolve the parent physically so that a path through a symlinked dir lands on the right volume
        try:
            d = self.orig['realpath'](os.path.dirname(p))
        except OSError:
            d = os.path.dirname(p)
        p = os.path.join(d, os.path.basename(p))
        while True:
            if p in self.mounts:
                return p
            q = os.path.dirname(p)
            if q == p:
                return '/'
            p = q

    def mutation(self, name):
        """called before every syscall-level mutation"""
        self.nmut += 1
        self.muts.append(name)
        ck = self.plan.get('crash')
        if ck is not None and self.nmut == ck:
            raise Crash()
        ra = self.plan.get('raise_at')     # [k, 'RecursionError'|'MemoryError'] : the interpreter's own limits are hit there (a tree too deep
        if ra is not None and self.nmut == ra[0]:    # for the recursive rmtree, no memory): an Exception that is no OSError
            raise {'RecursionError': RecursionError, 'MemoryError': MemoryError}[ra[1]]('injected before the %d-th mutation' % ra[0])
        rk = self.plan.get('raise_kinds')  # [[kinds], exc] : EVERY mutation of these kinds hits that limit (unlink/rmdir = inside rmtree: the tree
        if rk is not None and name in rk[0]:         # is too deep for it, now and on every later attempt)
            raise {'RecursionError': RecursionError, 'MemoryError': MemoryError}[rk[1]]('injected at every %s' % name)
        sf = self.plan.get('sysfault')     # [k, errno] : the k-th syscall-level mutation fails
        if sf is not None and self.nmut == sf[0]:
            raise OSError(sf[1], os.strerror(sf[1]))
        for sf2 in self.plan.get('sysfaults') or []:      # several of them
            if self.nmut == sf2[0]:
                raise OSError(sf2[1], os.strerror(sf2[1]))

    def after_mutation(self):
        """SIGINT-like interruption: KeyboardInterrupt raised right after the k-th syscall-level mutation returned"""
        mf = self.plan.get('midfs')         # {'after': k, 'ops': [...]}: someone else changes the file system right after the k-th mutation
        if mf is not None and self.nmut == mf['after'] and not getattr(self, '_midfs_done', False):
            self._midfs_done = True
            self._others(mf.get('ops') or [])
        ik = self.plan.get('interrupt')
        if ik is not None and self.nmut == ik:
            raise KeyboardInterrupt()

    def _others(self, ops):
        """what somebody else does to the file system while the command runs"""
        if True:
            for op in ops:
                try:
                    if op[0] == 'chmod':
                        self.orig['os.chmod'](op[1], op[2])
                    elif op[0] == 'remove':           # somebody else deletes a file / an (empty) directory / a link
                        try:
                            self.orig['os.unlink'](op[1])
                        except OSError:
                            shutil.rmtree(op[1], ignore_errors=True)
                    elif op[0] == 'mkdir':
                        self.orig['os.makedirs'](op[1], op[2] if len(op) > 2 else 0o700, exist_ok=True)
                    elif op[0] == 'write':            # somebody else creates a file (another trash-put finishing, a daemon re-opening its log)
                        with self.orig['bopen'](op[1], 'wb') as f:
                            f.write(op[2].encode('utf-8', 'surrogateescape'))
                    elif op[0] == 'to_link':          # replace a directory by a symbolic link to where it was moved
                        self.orig['os.rename'](op[1], op[2])
                        self.orig['os.symlink'](op[2], op[1])
                except OSError:
                    pass

    def lib(self, name, args, fn):
        """record + possibly fault a library-boundary op issued by a trashcli frame"""
        self.nlib += 1
        k = self.nlib
        if k > self.step.get('maxlib', 20000):
            raise Looping()
        fault = self.plan.get('fault')      # [k, errno] : the k-th library-boundary op fails
        faults = self.plan.get('faults')    # {opname: errno} persistent fault on every op of that name, optional path filter
        rec = [name, args, None, k]           # k = index of this library-boundary operation (fault plans address it)
        self.trace.append(rec)
        gate = self.plan.get('gate')          # lock-step scheduling: [read_fd, write_fd]; wait for the controller's turn
        if gate is not None and name in ('exists', 'lexists', 'open', 'write', 'close', 'move', 'remove', 'unlink', 'makedirs'):
            try:
                self.orig['os.write'](gate[1], b'r')
                self.orig['os.read'](gate[0], 1)
            except OSError:
                pass
        try:
            if name in ('exists', 'lexists', 'isdir', 'isfile', 'islink', 'ismount', 'access', 'isatty', 'input'):
                fault = faults = None           # these never raise OSError in CPython: they answer False
                self_second = None
            else:
                self_second = self.plan.get('second')
            if fault is not None and k == fault[0]:
                raise OSError(fault[1], os.strerror(fault[1]))
            second = self_second
            if second is not None and k == second[0]:
                raise OSError(second[1], os.strerror(second[1]))
            if faults and name in faults:
                spec = faults[name]
                if spec.get('excl') and not (len(args) > 1 and isinstance(args[1], int) and args[1] & os.O_EXCL):
                    pass                        # only exclusive creates are refused (a file system that rejects O_EXCL)
                elif not spec.get('path') or any(spec['path'] in str(a) for a in args):
                    if spec.get('after', 0) < self._bump(name):
                        raise OSError(spec['errno'], os.strerror(spec['errno']))
            r = fn()
            rec[2] = ['ok', r]
            ml = self.plan.get('midlib')        # {'after': k, 'ops': [...]}: ... right after the k-th library-boundary operation (probes included)
            if ml is not None and k == ml['after']:
                self._others(ml.get('ops') or [])
            return r
        except OSError as e:
            rec[2] = ['err', 'ShutilError' if isinstance(e, shutil.Error) else 'OSError', e.errno]
            raise
        except _KbdAtPrompt:
            rec[2] = ['err', 'KeyboardInterrupt', None]
            raise
        except (Crash, Looping, KeyboardInterrupt):
            rec[2] = ['crash']
            raise
        except BaseException as e:
            rec[2] = ['err', type(e).__name__, None]
            raise

    def _bump(self, name):
        c = getattr(self, '_cnt', None)
        if c is None:
            c = self._cnt = {}
        c[name] = c.get(name, 0) + 1
        return c[name]

    # -- installation
    def install(self):
        import builtins
        import random
        import posixpath
        S = self
        O = self.orig
        for n in ('exists', 'lexists', 'isdir', 'isfile', 'islink', 'ismount', 'realpath', 'abspath', 'getsize'):
            O[n] = getattr(os.path, n)
        for n in ('stat', 'lstat', 'access', 'listdir', 'makedirs', 'open', 'write', 'close', 'getuid', 'isatty',
                  'readlink', 'read') + Shim.MUT_NAMES:
            if hasattr(os, n):
                O['os.' + n] = getattr(os, n)
        O['move'] = shutil.move
        O['rmtree'] = shutil.rmtree
        O['bopen'] = builtins.open
        O['randint'] = random.randint

        def probe(name):
            orig = O[name]

            def w(path, *a, **kw):
                if S.from_trashcli():
                    return S.lib(name, [path], lambda: orig(path, *a, **kw))
                return orig(path, *a, **kw)
            w.__name__ = name
            return w
        for n in ('exists', 'lexists', 'isdir', 'isfile', 'islink', 'realpath', 'abspath', 'getsize'):
            setattr(os.path, n, probe(n))

        def ismount(path):
            def real():
                p = os.fspath(path)
                if O['islink'](p):
                    return False
                if not O['lexists'](p):
                    return False
                return os.path.normpath(O['abspath'](p)) in S.mounts
            if S.from_trashcli():
                return S.lib('ismount', [path], real)
            return real()
        os.path.ismount = ismount

        def os_probe(name, recname=None, conv=None):
            orig = O['os.' + name]

            def w(path, *a, **kw):
                if S.from_trashcli():
                    r = S.lib(recname or name, [path] + [x for x in a],
                              lambda: orig(path, *a, **kw))
                    if name in ('stat', 'lstat') and isinstance(r, os.stat_result) and isinstance(path, (str, bytes)):
                        # the faked volumes are different devices for whoever asks (st_dev), as they are for rename (EXDEV) and ismount
                        try:
                            p = os.fsdecode(path)
                            if name == 'stat':
                                p = O['realpath'](p)
                            v = S.vol_of(p)
                            r = _StatOnVolume(r, 64000 + (sorted(S.mounts).index(v) + 1 if v in S.mounts else 0))
                        except Exception:
                            pass
                    return r
                return orig(path, *a, **kw)
            return w

        class _StatOnVolume(object):
            def __init__(self, st, dev):
                self._st, self.st_dev = st, dev

            def __getattr__(self, n):
                return getattr(self._st, n)

            def __getitem__(self, i):
                return self.st_dev if i == 2 else self._st[i]

            def __iter__(self):
                return iter(tuple(self._st[:2]) + (self.st_dev,) + tuple(self._st[3:]))

            def __len__(self):
                return len(self._st)
        os.stat = os_probe('stat')
        os.lstat = os_probe('lstat')
        os.access = os_probe('access')
        os.readlink = os_probe('readlink')

        def listdir(path='.'):
            def real():
                r = sorted(O['os.listdir'](path))
                pol = S.step.get('listdir', 'sorted')
                if pol == 'reverse':
                    r.reverse()
                elif isinstance(pol, int):
                    import random as _r
                    _r.Random(pol).shuffle(r)
                return r
            if S.from_trashcli():
                return S.lib('listdir', [path], real)
            return real()
        os.listdir = listdir

        def makedirs(name, mode=0o777, exist_ok=False):
            if S.from_trashcli():
                return S.lib('makedirs', [name, mode], lambda: O['os.makedirs'](name, mode, exist_ok))
            return O['os.makedirs'](name, mode, exist_ok)
        os.makedirs = makedirs

        def os_open(path, flags, mode=0o777, *, dir_fd=None):
            def real():
                if flags & (os.O_CREAT | os.O_TRUNC) or (flags & (os.O_WRONLY | os.O_RDWR) and flags & os.O_APPEND):
                    S.mutation('open')
                if dir_fd is None:
                    r = O['os.open'](path, flags, mode)
                else:
                    r = O['os.open'](path, flags, mode, dir_fd=dir_fd)
                if flags & (os.O_CREAT | os.O_TRUNC):
                    S.after_mutation()
                return r
            if S.from_trashcli():
                return S.lib('open', [path, flags, mode], real)
            return real()
        os.open = os_open

        def os_write(fd, data):
            def real():
                S.mutation('write')
                r = O['os.write'](fd, data)
                S.after_mutation()
                return r
            if S.from_trashcli():
                return S.lib('write', [bytes(data)], real)
            return real()
        os.write = os_write

        def os_close(fd):
            if S.from_trashcli():
                sp = (S.plan.get('faults') or {}).get('close')
                if sp and sp.get('lossy'):
                    # close(2) reporting a deferred write error (NFS, quota): what had been written is not there
                    try:
                        os.ftruncate(fd, 0)
                    except OSError:
                        pass
                return S.lib('close', [], lambda: O['os.close'](fd))
            return O['os.close'](fd)
        os.close = os_close

        def mut(name):
            orig = O['os.' + name]

            def w(*a, **kw):
                def real():
                    if name in ('rename', 'replace') and kw.get('src_dir_fd') is None and kw.get('dst_dir_fd') is None:
                        src, dst = os.fspath(a[0]), os.fspath(a[1])
                        if isinstance(src, bytes):
                            src = os.fsdecode(src)
                        if isinstance(dst, bytes):
                            dst = os.fsdecode(dst)
                        asrc = os.path.normpath(O['abspath'](src))
                        if asrc in S.mounts and asrc != '/':
                            S.mutation(name)
                            raise OSError(_errno.EBUSY, os.strerror(_errno.EBUSY), src)
                        if O['lexists'](src) and S.vol_of(src) != S.vol_of(dst):
                            S.mutation(name)
                            raise OSError(_errno.EXDEV, os.strerror(_errno.EXDEV), src)
                    if name == 'rmdir' and kw.get('dir_fd') is None:
                        p = os.fspath(a[0])
                        if isinstance(p, bytes):
                            p = os.fsdecode(p)
                        ap = os.path.normpath(O['abspath'](p))
                        if ap in S.mounts and ap != '/':
                            S.mutation(name)
                            raise OSError(_errno.EBUSY, os.strerror(_errno.EBUSY), p)
                    S.mutation(name)
                    r = orig(*a, **kw)
                    S.after_mutation()
                    return r
                if S.from_trashcli() and name in ('remove', 'unlink', 'rename', 'mkdir', 'rmdir', 'symlink', 'chmod'):
                    return S.lib(name, [x for x in a], real)
                return real()
            w.__name__ = name
            return w
        for n in Shim.MUT_NAMES:
            if n != 'write' and ('os.' + n) in O:
                setattr(os, n, mut(n))
        # the capability sets the library consults (shutil.copystat, rmtree) must know the wrappers
        for capset in (os.supports_follow_symlinks, os.supports_dir_fd, os.supports_fd, os.supports_effective_ids):
            for key, orig in list(O.items()):
                if key.startswith('os.') and orig in capset:
                    capset.add(getattr(os, key[3:]))

        def move(src, dst, *a, **kw):
            if S.from_trashcli():
                return S.lib('move', [src, dst], lambda: O['move'](src, dst, *a, **kw))
            return O['move'](src, dst, *a, **kw)
        shutil.move = move

        def rmtree(path, *a, **kw):
            if S.from_trashcli():
                return S.lib('rmtree', [path], lambda: O['rmtree'](path, *a, **kw))
            return O['rmtree'](path, *a, **kw)
        shutil.rmtree = rmtree

        def bopen(file, mode='r', *a, **kw):
            writing = any(c in mode for c in 'wax+')
            if writing:
                S.mutation('open')
            if S.from_trashcli() and not writing:
                def real():
                    return O['bopen'](file, mode, *a, **kw)
                f = S.lib('open_read', [file], real)
                return _ReadRecorder(f, S)
            return O['bopen'](file, mode, *a, **kw)
        builtins.open = bopen

        os.getuid = lambda: S.uid
        if S.step.get('users') is not None:
            # the password database as --all-users sees it: [[name, uid, home], ...]
            import pwd
            pwd.getpwall = lambda: [pwd.struct_passwd((n, 'x', u, u, '', h, '/bin/sh')) for n, u, h in S.step['users']]

        def isatty(fd):
            if fd == 0:
                return S.lib('isatty', [], lambda: bool(S.step.get('tty', False)))
            return O['os.isatty'](fd)
        os.isatty = isatty
        try:
            import trashcli.lib.my_input as mi
            orig_input = mi._my_input

            def rec_input(prompt=''):
                def real():
                    S._ninput = getattr(S, '_ninput', 0) + 1
                    if S.step.get('interrupt_input') == S._ninput:      # ^C typed at the n-th prompt
                        raise _KbdAtPrompt()
                    return orig_input(prompt)
                return S.lib('input', [prompt], real)
            mi._my_input = rec_input
        except Exception:
            pass

        def randint(a, b):
            if S.randints:
                r = S.randints.pop(0)
            else:
                r = O['randint'](a, b)
            S.rand_used.append(r)
            if S.from_trashcli():
                S.trace.append(['randint', [a, b], ['ok', r]])
            return r
        random.randint = randint


class _ReadRecorder:
    """wraps a text file opened for reading by a trashcli frame: records read() result/err"""

    def __init__(self, f, shim):
        self._f = f
        self._s = shim

    def __enter__(self):
        self._f.__enter__()
        return self

    def __exit__(self, *a):
        return self._f.__exit__(*a)

    def read(self, *a):
        rec = self._s.trace[-1] if self._s.trace and self._s.trace[-1][0] == 'open_read' else None
        try:
            r = self._f.read(*a)
        except UnicodeDecodeError:
            self._s.trace.append(['read', [], ['err', 'UnicodeDecodeError', None]])
            raise
        except OSError as e:
            self._s.trace.append(['read', [], ['err', 'OSError', e.errno]])
            raise
        self._s.trace.append(['read', [], ['ok', r]])
        return r

    def __getattr__(self, n):
        return getattr(self._f, n)


# ------------------------------------------------------------------------------------------------
_MAINS = None


def load_mains():
    """import the five commands from /repo's current working tree (once per check process) and every
    module they import lazily, so that nothing needs the real file system after chroot"""
    global _MAINS
    if _MAINS is not None:
        return _MAINS
    if REPO not in sys.path:
        sys.path.insert(0, REPO)
    for m in [k for k in sys.modules if k == 'trashcli' or k.startswith('trashcli.')]:
        del sys.modules[m]
    import argparse, datetime, fnmatch, re, random, psutil, pwd, grp, gettext, locale, textwrap, linecache  # noqa
    import encodings.utf_8, encodings.ascii, encodings.latin_1, encodings.idna  # noqa
    import logging, _strptime, calendar, copy, urllib.parse, unicodedata, stat, posixpath, genericpath  # noqa
    datetime.datetime.strptime('2024-01-02T03:04:05', '%Y-%m-%dT%H:%M:%S')
    urllib.parse.quote('a b', '/'), urllib.parse.unquote('%41')
    fnmatch.fnmatchcase('a', '[a-b]*?')
    from trashcli.put.main import main as put_main
    from trashcli.list.main import main as list_main
    from trashcli.restore.main import main as restore_main
    from trashcli.empty.main import main as empty_main
    from trashcli.rm.main import main as rm_main
    import trashcli.empty.older_than, trashcli.fstab.mount_points_listing  # noqa
    import trashcli.put.reporting.stats_reader  # noqa
    _MAINS = {'put': put_main, 'list': list_main, 'restore': restore_main, 'empty': empty_main, 'rm': rm_main}
    # warm up argparse / gettext caches
    try:
        argparse.ArgumentParser(prog='x').format_help()
    except Exception:
        pass
    return _MAINS


PROG = {'put': 'trash-put', 'list': 'trash-list', 'restore': 'trash-restore', 'empty': 'trash-empty', 'rm': 'trash-rm'}


def _child(root, scn, step, resfile, outf, errf):
    import builtins
    import datetime as _dt
    import io
    import random
    mains = load_mains()
    os.chroot(root)
    os.chdir('/')
    cwd = step.get('cwd_override') or scn.get('cwd', '/')
    try:
        os.chdir(os.fsencode(cwd))
    except OSError:
        os.chdir('/')
    os.environ.clear()
    for k, v in (scn.get('env') or {}).items():
        os.environ[k] = v
    for k, v in (step.get('env') or {}).items():
        if v is None:
            os.environ.pop(k, None)
        else:
            os.environ[k] = v
    if 'TZ' in os.environ:
        import time as _time
        _time.tzset()                 # a POSIX TZ string needs no zone files (there are none inside the sandbox root)
    shim = Shim(step, scn.get('mounts') or [], scn.get('uid', 0))
    cmd = step['cmd']
    sys.argv = [PROG[cmd]] + list(step.get('argv') or [])
    stdin = step.get('stdin')
    sys.stdin = io.StringIO(stdin if stdin is not None else '')
    raw_out = io.FileIO(outf, 'w')
    if step.get('stdout_breaks') is not None:
        # whoever was reading our standard output goes away after so many writes (trash-empty -v | head): EPIPE from then on
        class _Breaking(io.FileIO):
            left = int(step['stdout_breaks'])

            def write(self, b):
                if _Breaking.left <= 0:
                    raise BrokenPipeError(32, 'Broken pipe')
                _Breaking.left -= 1
                return io.FileIO.write(self, b)
        raw_out = _Breaking(outf, 'w')
    out = io.TextIOWrapper(raw_out, encoding='utf-8', errors='strict', write_through=True)
    err = io.TextIOWrapper(io.FileIO(errf, 'w'), encoding='utf-8', errors='backslashreplace', write_through=True)
    sys.stdout, sys.stderr = out, err
    # clock
    now = step.get('now')
    if now:
        nowv = _dt.datetime(*now)
        import trashcli.put.clock as pc
        import trashcli.empty.main as em

        tick = step.get('tick') or 0            # a clock that moves: every reading is `tick` seconds after the previous one
        reads = [0]

        class _DT(_dt.datetime):
            @classmethod
            def now(cls, tz=None):
                v = nowv + _dt.timedelta(seconds=tick * reads[0])
                reads[0] += 1
                shim.trace.append(['now', [], ['ok', [v.year, v.month, v.day, v.hour, v.minute, v.second, v.microsecond]]])
                return v

            @classmethod
            def today(cls):
                return cls.now()

            @classmethod
            def utcnow(cls):
                # the same instant read as UTC (under the step's TZ): not what trash-cli reads - recorded under its own name, which the
                # model does not know, so a run that reads it is not a run of the model
                import time as _t
                v = _dt.datetime.utcfromtimestamp(_t.mktime(nowv.timetuple()))
                shim.trace.append(['utcnow', [], ['ok', [v.year, v.month, v.day, v.hour, v.minute, v.second, 0]]])
                return v
        em.datetime = _DT

        # trash-put's clock is datetime.datetime.now() (trashcli/put/clock.py): the module's view of `datetime` is replaced, not the
        # method that calls it; and the epoch clock agrees with it (time.time() is the instant whose local time, under the scenario's TZ,
        # is `now`), so that any other way of reading the time of day is held against the same value
        class _DTModule(object):
            datetime = _DT

            def __getattr__(self, name):
                return getattr(_dt, name)
        pc.datetime = _DTModule()
        import time as _time
        try:
            _epoch = _time.mktime(nowv.timetuple()) + nowv.microsecond / 1e6
            _time.time = lambda: _epoch
        except (OverflowError, ValueError):
            pass
    # mounts seen by trash-restore (psutil) ; TRASH_VOLUMES is honoured by list/empty/rm themselves
    import psutil

    # every mount has a file-system type: physical ones (what psutil lists without all=True) and the network / fuse types
    # trash-cli accepts by name (fstab/mount_points_listing.py); the type is a function of the mount point, so runs replay
    import zlib
    _TYPES = ['ext4', 'ext4', 'btrfs', 'nfs4', 'fuse.gocryptfs', 'p9', 'vfat', 'ext4']
    _PHYSICAL = ('ext4', 'vfat', 'btrfs')

    def _fstype(mp):
        return 'ext4' if mp == '/' else _TYPES[zlib.crc32(mp.encode('utf-8', 'surrogateescape')) % len(_TYPES)]

    class _P:
        def __init__(self, mp):
            self.device, self.mountpoint, self.fstype, self.opts = '/dev/v' + mp.replace('/', '_'), mp, _fstype(mp), 'rw'
    vols = step.get('listed_mounts')
    if vols is None:
        vols = ['/'] + sorted(scn.get('mounts') or [])

    def disk_partitions(all=False):
        # the recorded answer is what the caller may use of it: every mount of an accepted type (all=True), the physical ones otherwise
        listed = list(vols) if all else [m for m in vols if _fstype(m) in _PHYSICAL]
        shim.trace.append(['list_mounts', [], ['ok', listed]])
        return [_P(m) for m in listed]
    psutil.disk_partitions = disk_partitions
    # restore's logger writes to stderr
    import logging
    for h in list(logging.getLogger().handlers):
        h.stream = err
    try:
        from trashcli.lib.logger import my_logger
        for h in list(my_logger.handlers):
            if hasattr(h, 'stream'):
                h.stream = err
    except Exception:
        pass
    shim.install()
    code, exc, tb = 0, None, None
    crashed = False
    looping = False
    try:
        rc = mains[cmd]()
        code = 0 if rc is None else (rc if isinstance(rc, int) else 1)
    except SystemExit as e:
        if e.code is None:
            code = 0
        elif isinstance(e.code, int):
            code = e.code
        else:
            err.write(str(e.code) + '\n')
            code = 1
    except Crash:
        crashed = True
        code = 137
    except Looping:
        looping = True
        code = None
        shim.trace = shim.trace[:200]
    except BaseException as e:     # what the interpreter would do: traceback, exit status 1
        exc = 'KeyboardInterrupt' if isinstance(e, KeyboardInterrupt) else type(e).__name__
        tb = traceback.format_exc()
        try:
            err.write('Traceback (most recent call last): ' + exc + ': ' + str(e) + '\n')
        except Exception:
            pass
        code = 1
    try:
        out.flush()
        err.flush()
    except Exception:
        pass
    res = {'exit': code, 'exc': exc, 'tb': tb, 'trace': shim.trace, 'nmut': shim.nmut, 'muts': shim.muts,
           'nlib': shim.nlib, 'rand_used': shim.rand_used, 'crashed': crashed, 'looping': looping}
    shim.orig['bopen'](resfile, 'w').write(json.dumps(res, default=_jsonable))
    os._exit(0)


def _jsonable(o):
    if isinstance(o, bytes):
        return {'__b': o.hex()}
    if isinstance(o, os.stat_result):
        return {'__st': [o.st_mode, o.st_size]}
    return repr(o)


def run_step(root, scn, step, timeout=None):
    """fork a child that chroots into root and runs one command; returns the observation dict"""
    if timeout is None:
        timeout = step.get('timeout', 20)
    ctl = tempfile.mkdtemp(prefix='tvctl', dir=BASE)
    os.makedirs(os.path.join(root, '.ctl'), exist_ok=True) if False else None
    resfile = os.path.join(ctl, 'res.json')
    outf = os.path.join(ctl, 'out')
    errf = os.path.join(ctl, 'err')
    # result/out/err files are opened before chroot by fd? simpler: open fds now, pass numbers
    rfd = os.open(resfile, os.O_WRONLY | os.O_CREAT, 0o600)
    ofd = os.open(outf, os.O_WRONLY | os.O_CREAT, 0o600)
    efd = os.open(errf, os.O_WRONLY | os.O_CREAT, 0o600)
    sys.stdout.flush()
    sys.stderr.flush()
    pid = os.fork()
    if pid == 0:
        try:
            _child(root, scn, step, rfd, ofd, efd)
        except BaseException:
            try:
                os.write(2, traceback.format_exc().encode())
            finally:
                os._exit(99)
    os.close(rfd)
    os.close(ofd)
    os.close(efd)
    import time
    t0 = time.time()
    status = None
    while True:
        w, st = os.waitpid(pid, os.WNOHANG)
        if w:
            status = st
            break
        if time.time() - t0 > timeout:
            os.kill(pid, 9)
            os.waitpid(pid, 0)
            break
        time.sleep(0.0005)
    obs = {'timeout': status is None}
    try:
        with open(resfile) as f:
            txt = f.read()
        obs.update(json.loads(txt) if txt else {'exit': None, 'exc': None, 'trace': [], 'nmut': 0, 'muts': [], 'harness_error': 'no result (child status %r)' % status})
    except Exception as e:
        obs.update({'exit': None, 'harness_error': 'unreadable result: %r' % e})
    with open(outf, 'rb') as f:
        obs['stdout'] = f.read().decode('utf-8', 'surrogateescape')
    with open(errf, 'rb') as f:
        obs['stderr'] = f.read().decode('utf-8', 'surrogateescape')
    shutil.rmtree(ctl, ignore_errors=True)
    return obs


def execute(scn, snap_each=True, keep=False):
    """build the tree, run every step, snapshot after each; returns {'before', 'steps':[obs+{'after'}]}"""
    load_mains()
    root = tempfile.mkdtemp(prefix='tvsb', dir=BASE)
    try:
        build_tree(root, scn.get('tree') or [])
        for m in scn.get('mounts') or []:
            os.makedirs(_real(root, m), exist_ok=True)
        try:
            if not os.path.lexists(os.fsencode(_real(root, scn.get('cwd', '/')))):
                os.makedirs(os.fsencode(_real(root, scn.get('cwd', '/'))), exist_ok=True)
        except OSError:
            pass                          # the working directory is reached through a symbolic link of the tree: it exists inside the root
        before = snapshot(root)
        outs = []
        for step in scn['steps']:
            if step.get('cmd') == 'fs':
                # a change made by "someone else" between two commands: [['rmtree', path] | ['mkdir', path] | ['chmod', path, mode] | ['write', path, text]]
                for op in step.get('ops') or []:
                    rp = os.fsencode(_real(root, op[1]))
                    try:
                        if op[0] == 'rmtree':
                            shutil.rmtree(rp) if os.path.isdir(rp) and not os.path.islink(rp) else os.unlink(rp)
                        elif op[0] == 'mkdir':
                            os.makedirs(rp, exist_ok=True)
                        elif op[0] == 'chmod':
                            os.chmod(rp, op[2])
                        elif op[0] == 'write':
                            os.makedirs(os.path.dirname(rp), exist_ok=True)
                            with open(rp, 'wb') as f:
                                f.write(op[2].encode('utf-8', 'surrogateescape'))
                    except OSError:
                        pass
                obs = {'exit': 0, 'exc': None, 'trace': [], 'stdout': '', 'stderr': '', 'nmut': 0, 'muts': [], 'fs': True}
                if snap_each:
                    obs['after'] = snapshot(root)
                outs.append(obs)
                continue
            obs = run_step(root, scn, step)
            if snap_each:
                obs['after'] = snapshot(root)
            outs.append(obs)
        return {'before': before, 'steps': outs}
    finally:
        if not keep:
            _force_rmtree(root)


def _force_rmtree(root):
    def onerr(fn, path, exc):
        try:
            os.chmod(os.path.dirname(path), 0o700)
            os.chmod(path, 0o700)
            fn(path)
        except Exception:
            pass
    shutil.rmtree(root, onerror=onerr)


def execute_many(scns, procs=None, **kw):
    """run scenarios in parallel worker processes (each forks its own children)"""
    from common import NCPU
    load_mains()
    if procs is None:
        procs = NCPU
    if len(scns) < 8 or procs <= 1:
        return [execute(s, **kw) for s in scns]
    import multiprocessing as mp
    ctx = mp.get_context('fork')
    with ctx.Pool(procs) as pool:
        return pool.map(_exec1, [(s, kw) for s in scns], chunksize=max(1, len(scns) // (procs * 8)))


def _exec1(a):
    try:
        return execute(a[0], **a[1])
    except Exception as e:
        return {'before': {}, 'steps': [], 'harness_error': traceback.format_exc()}


def execute_concurrent(scn, steps, schedule, timeout=20):
    """run several commands AT THE SAME TIME in one tree, in lock step: `schedule` is a list of process indices; each grant
    lets that process perform one gated library operation (exists / open / write / close / move / remove / makedirs).
    When the schedule is exhausted the processes are released one after the other. Returns {'before','steps':[obs],'after'}"""
    import select
    import time
    load_mains()
    root = tempfile.mkdtemp(prefix='tvsb', dir=BASE)
    try:
        build_tree(root, scn.get('tree') or [])
        for m in scn.get('mounts') or []:
            os.makedirs(_real(root, m), exist_ok=True)
        try:
            if not os.path.lexists(os.fsencode(_real(root, scn.get('cwd', '/')))):
                os.makedirs(os.fsencode(_real(root, scn.get('cwd', '/'))), exist_ok=True)
        except OSError:
            pass                          # the working directory is reached through a symbolic link of the tree: it exists inside the root
        before = snapshot(root)
        procs = []
        for i, step in enumerate(steps):
            c2p_r, c2p_w = os.pipe()
            p2c_r, p2c_w = os.pipe()
            ctl = tempfile.mkdtemp(prefix='tvctl', dir=BASE)
            files = [os.path.join(ctl, n) for n in ('res.json', 'out', 'err')]
            fds = [os.open(f, os.O_WRONLY | os.O_CREAT, 0o600) for f in files]
            st = dict(step)
            if schedule is not None:
                st['plan'] = dict(st.get('plan') or {}, gate=[p2c_r, c2p_w])
            sys.stdout.flush()
            sys.stderr.flush()
            pid = os.fork()
            if pid == 0:
                try:
                    os.close(c2p_r)
                    os.close(p2c_w)
                    _child(root, scn, st, fds[0], fds[1], fds[2])
                except BaseException:
                    os._exit(99)
            os.close(c2p_w)
            os.close(p2c_r)
            for fd in fds:
                os.close(fd)
            procs.append({'pid': pid, 'r': c2p_r, 'w': p2c_w, 'ctl': ctl, 'files': files, 'alive': True, 'waiting': False, 'status': None})
        t0 = time.time()

        def pump(block_on=None):
            """update waiting/alive flags"""
            for pr in procs:
                if not pr['alive']:
                    continue
                if not pr['waiting']:
                    r, _, _ = select.select([pr['r']], [], [], 0)
                    if r:
                        try:
                            b = os.read(pr['r'], 1)
                        except OSError:
                            b = b''
                        if b:
                            pr['waiting'] = True
                        else:
                            w, stt = os.waitpid(pr['pid'], 0)
                            pr['alive'] = False
                            pr['status'] = stt

        def settle(pr):
            """wait until pr is waiting at its next gate or has exited"""
            while pr['alive'] and not pr['waiting'] and time.time() - t0 < timeout:
                r, _, _ = select.select([pr['r']], [], [], 0.5)
                if r:
                    try:
                        b = os.read(pr['r'], 1)
                    except OSError:
                        b = b''
                    if b:
                        pr['waiting'] = True
                    else:
                        os.waitpid(pr['pid'], 0)
                        pr['alive'] = False
        for pr in procs:
            settle(pr)
        for i in list(schedule or []) + [None]:
            if i is None:
                break
            pr = procs[i % len(procs)]
            if pr['alive'] and pr['waiting']:
                pr['waiting'] = False
                try:
                    os.write(pr['w'], b'g')
                except OSError:
                    pass
                settle(pr)
        # release: one process after the other, to completion
        for pr in procs:
            while pr['alive'] and time.time() - t0 < timeout:
                if pr['waiting']:
                    pr['waiting'] = False
                    try:
                        os.write(pr['w'], b'g')
                    except OSError:
                        pass
                settle(pr)
            if pr['alive']:
                os.kill(pr['pid'], 9)
                os.waitpid(pr['pid'], 0)
                pr['alive'] = False
                pr['timeout'] = True
        outs = []
        for pr in procs:
            obs = {'timeout': bool(pr.get('timeout'))}
            try:
                txt = open(pr['files'][0]).read()
                obs.update(json.loads(txt) if txt else {'exit': None, 'exc': None, 'trace': [], 'harness_error': 'no result'})
            except Exception as e:
                obs.update({'exit': None, 'harness_error': repr(e)})
            obs['stdout'] = open(pr['files'][1], 'rb').read().decode('utf-8', 'surrogateescape')
            obs['stderr'] = open(pr['files'][2], 'rb').read().decode('utf-8', 'surrogateescape')
            for fd in (pr['r'], pr['w']):
                try:
                    os.close(fd)
                except OSError:
                    pass
            shutil.rmtree(pr['ctl'], ignore_errors=True)
            outs.append(obs)
        return {'before': before, 'steps': outs, 'after': snapshot(root)}
    finally:
        _force_rmtree(root)
