"""C16 - trash-put's exit status tells the truth and arguments are handled independently."""
import copy
import itertools
import os
import re

import engine
import putlib
import sandbox
import scen
from common import esc

RULE = ("trace level: exact correspondence of every generated trash-put run with the Coq model (operations, exit status, diagnostics) and the Coq "
        "put-discipline monitor (whose final clause is: exit status 0 iff no 'cannot trash' was reported); state level: lists of 1-6 "
        "arguments mixing trashable entries, nonexistent paths, dot entries, names that are not valid UTF-8 and entries whose trashing fails "
        "(a volume whose trash directories are unusable), with/without -f -i -v, in shuffled orders: exit status 0 iff every argument was "
        "trashed or legitimately skipped; stderr names every failed argument; and the outcome of each argument equals its outcome when the "
        "same argument is run alone on an identical tree. distinct = (kinds in order, outcomes, mode, exit).")
ASSUMPTIONS = ["independence is claimed for arguments none of which is an ancestor, alias, link target or duplicate of another"]


RULE += ' Since round 8 mount points are among the arguments.'


def gen(rng, n):
    scns, metas = [], []
    for i in range(n):
        lay = scen.Layout(rng, nested=False, home_name=rng.choice([None, None, None, '/home/u(x', '/home/[u]+', '/home/u%s', '/home/u{0}']))
        # sometimes a volume on which nothing can be trashed: .Trash and .Trash-uid are regular files
        blocked = None
        if lay.vols and rng.random() < 0.35:
            blocked = lay.vols[-1]
            lay.tree = [e for e in lay.tree if not e[1].startswith(blocked + '/.Trash')]
            lay.tree += [['f', blocked + '/.Trash', 'x'], ['f', lay.top2(blocked), 'x']]
            lay.top[blocked] = ['file', 'file']
        s, m = putlib.gen_put(rng, nargs=rng.randint(1, 5), layout=lay, allow_mount=True)
        args = m['args']
        if blocked and rng.random() < 0.5:
            # entries of every kind on the volume where nothing can be trashed: each must be reported as a failure, with or without -f
            fam = [('lx', ['l', blocked + '/dangle', 'no/where']), ('f', ['f', blocked + '/plain', 'p']), ('ld', ['l', blocked + '/tolink', '/canary'])]
            # often exactly ONE of them, so that it is the only failing argument of the run and the exit status hangs on it alone
            chosen = [rng.choice(fam)] if rng.random() < 0.6 else [x for x in fam if rng.random() < 0.6]
            if len(chosen) == 1 and rng.random() < 0.7:
                args[:] = [a for a in args if a['expect'] == 'trash' and not (a['entry'] or '').startswith(blocked)][:2]
            for kind, node in chosen:
                s['tree'].append(node)
                args.append({'arg': node[1], 'kind': kind, 'entry': node[1], 'expect': 'trash'})
            av0 = s['steps'][0]['argv']
            if s['steps'][0].get('stdin') is not None:
                s['steps'][0]['stdin'] += ''.join(rng.choice(['y\n', 'n\n', 'Y\n', '\n']) for _ in range(4))     # one reply per argument
            if m['mode'] == 'plain' and rng.random() < 0.5:
                s['steps'][0]['argv'] = ['-f'] + av0
                m['mode'] = 'force'
        if rng.random() < 0.15:
            # arguments the kernel cannot even look up (a component longer than NAME_MAX, a symbolic link that loops): they do not exist,
            # say so, go on with the next argument
            if rng.random() < 0.5:
                args.append({'arg': rng.choice(['', 'sub/']) + 'n' * 300, 'kind': 'missing', 'entry': None, 'expect': 'missing'})
            else:
                s['tree'].append(['l', m['cwd'].rstrip('/') + '/loop', 'loop'])
                args.append({'arg': 'loop/x', 'kind': 'missing', 'entry': None, 'expect': 'missing'})
        rng.shuffle(args)
        if m['mode'] != 'interactive' and rng.random() < 0.15:
            # the very same argument string once more, later on the command line: by then the entry is (normally) gone, so this
            # occurrence is a path that does not exist - it fails on its own (or is ignored under -f), it is not silently dropped
            firsts = [a for a in args if a['expect'] == 'trash' and a['kind'] in ('f', 'e', 'd')]
            if firsts:
                a0 = rng.choice(firsts)
                args.append({'arg': a0['arg'], 'kind': 'again', 'entry': None, 'expect': 'missing'})
        if rng.random() < 0.15 and len(args) >= 2:
            # the file system refuses to create the .trashinfo of ONE of the arguments (no space left, read-only, ...), in every trash
            # directory: that argument fails and is named, the others are handled as if it had not been there
            vict = [a for a in args if a['expect'] == 'trash' and a['entry']]
            if vict:
                a0 = rng.choice(vict)
                nm = os.path.basename(os.path.normpath(a0['entry']))
                if nm and len(nm) < 200:
                    s['steps'][0]['plan'] = {'faults': {'open': {'errno': rng.choice([28, 30, 13, 122]), 'path': '/info/' + nm}}}
        av = s['steps'][0]['argv']
        s['steps'][0]['argv'] = av[:av.index('--') + 1] + [a['arg'] for a in args]
        if m['mode'] == 'interactive' and rng.random() < 0.25:
            s['steps'][0]['interrupt_input'] = rng.randint(1, 3)        # the user types ^C at that prompt
        m['blocked'] = blocked
        scns.append(s)
        metas.append(m)
    return scns, metas


def legit_skip(a, meta, reply_yes):
    if a['kind'] == 'missing':
        return meta['mode'] == 'force'
    return False


def judge(run, scn, meta, res, alone, section='state'):
    o = res['steps'][0]
    before, after = res['before'], o['after']
    case = {'scenario': scn, 'exit': o['exit'], 'exc': o['exc'], 'stderr': o['stderr'][-900:]}
    run.count(section)
    outs = putlib.conservation(run, scn, meta, res, section)
    st = scn['steps'][0]
    replies = (st.get('stdin') or '').split('\n')
    # which arguments ended trashed / which failed
    failed = []
    ri = 0
    again_unknown = False
    for a, out in zip(meta['args'], outs):
        ok = None
        if a['kind'] == 'dot':
            ok = False
        elif a['kind'] == 'mount':
            # a mount point is refused when the move is attempted: under -i the question comes first, and declining is a legitimate skip
            ok = False
            if meta['mode'] == 'interactive':
                rep = replies[ri] if ri < len(replies) else ''
                ri += 1
                ok = not rep[:1] in ('y', 'Y')
        elif a['kind'] == 'missing':
            ok = meta['mode'] == 'force'
        elif a['kind'] == 'again':
            first = [o2 for a2, o2 in zip(meta['args'], outs) if a2['arg'] == a['arg'] and a2['kind'] != 'again']
            ok = (meta['mode'] == 'force') if first and first[0] == 'trashed' else None
            again_unknown = again_unknown or ok is None
        else:
            if out == 'trashed':
                ok = True
            elif out == 'untouched':
                # declined under -i is a legitimate skip: the prompt is issued only for existing, accessible entries
                # os.access follows links: a dangling link is 'not writable' and is trashed without a question
                asked = meta['mode'] == 'interactive' and a['entry'] is not None and a['kind'] != 'lx'
                declined = False
                if asked:
                    rep = replies[ri] if ri < len(replies) else ''
                    ri += 1
                    declined = not rep[:1] in ('y', 'Y')
                ok = declined
            elif out == 'none':
                ok = None
            else:
                ok = False
        if meta['mode'] == 'interactive' and out == 'trashed' and a['kind'] != 'lx':
            ri += 1
        if ok is False:
            failed.append(a)
    if any(t[0] == 'input' and t[2] and t[2][0] == 'err' and t[2][1] == 'KeyboardInterrupt' for t in o['trace']):
        # ^C at a prompt: the argument asked about and all later ones were neither trashed nor declined - whatever is printed, the exit
        # status must not say "all done"
        if o['exit'] == 0:
            run.fail('oracle', 'trash-put was interrupted at a prompt with arguments still pending, and exited with status 0', case,
                     key='interrupted-but-exit-0', section=section)
        run.nontriv(('interrupted', st.get('interrupt_input'), o['exit'] == 0))
        return
    if o['exc'] is not None:
        run.fail('oracle', 'trash-put ended with an uncaught exception: the remaining arguments were not handled',
                 case, key='uncaught-exception', section=section)
        return
    anyfail = len(failed) > 0
    unknown = again_unknown or any(out == 'none' and a['kind'] not in ('missing', 'dot', 'mount', 'again') for a, out in zip(meta['args'], outs))
    if not unknown:
        if (o['exit'] == 0) != (not anyfail):
            run.fail('oracle', 'exit status does not tell the truth: %d although %s' % (o['exit'], 'an argument failed' if anyfail else 'every argument was handled'),
                     dict(case, failed=[esc(a['arg']) for a in failed], outcomes=outs), key='exit-status-lies', section=section)
    err = o['stderr']
    for a in failed:
        shown = a['arg'].encode('utf-8', 'backslashreplace').decode('utf-8')
        if shown not in err:
            run.fail('oracle', 'no diagnostic on stderr names a failed argument', dict(case, arg=esc(a['arg'])), key='failed-arg-not-named', section=section)
    # independence: outcome when run alone on an identical tree
    for a, out, solo in zip(meta['args'], outs, alone):
        if solo is None or out in ('none', 'violated'):
            continue
        if solo != out:
            run.fail('oracle', 'the outcome of an argument depends on the other arguments of the same run',
                     dict(case, arg=esc(a['arg']), kind=a['kind'], together=out, alone=solo), key='argument-interference', section=section)
    run.nontriv((tuple(a['kind'] for a in meta['args']), tuple(outs), meta['mode'], o['exit'], bool(meta.get('blocked'))))


def solo_runs(scns, metas):
    """each argument alone on an identical tree (interactive runs are skipped: the reply stream is shared)"""
    solo_scns, index = [], []
    for si, (scn, meta) in enumerate(zip(scns, metas)):
        if meta['mode'] == 'interactive' or len(meta['args']) < 2:
            continue
        av = scn['steps'][0]['argv']
        opts = av[:av.index('--') + 1]
        for ai, a in enumerate(meta['args']):
            if a['entry'] is None:
                continue
            s = copy.deepcopy(scn)
            s['steps'][0]['argv'] = opts + [a['arg']]
            solo_scns.append(s)
            index.append((si, ai))
    res = sandbox.execute_many(solo_scns) if solo_scns else []
    out = {}
    for (si, ai), s, r in zip(index, solo_scns, res):
        if r.get('harness_error') or not r.get('steps'):
            continue
        m = {'args': [metas[si]['args'][ai]], 'mode': metas[si]['mode']}
        class Dummy:
            def fail(self, *a, **k):
                pass
        outs = putlib.conservation(Dummy(), s, m, r, 'solo')
        out[(si, ai)] = outs[0]
    return out


def run(run, thorough):
    scns, metas = gen(run.rng, 350 if not thorough else 5000)
    out = engine.run_all(run, 'put', scns)
    solo = solo_runs(scns, metas)
    idx = {id(s): i for i, s in enumerate(scns)}
    jobs = []
    for scn, res in out:
        i = idx[id(scn)]
        alone = [solo.get((i, ai)) for ai in range(len(metas[i]['args']))]
        judge(run, scn, metas[i], res, alone)
        jobs.append(('put', 'x', res['steps'][0], {'scenario': scn}))
    engine.run_monitors(run, 'put-monitor', jobs, 'the put-discipline monitor (Coq) rejects the implementation trace', 'put-discipline', silent=True)
    # directed: one of three arguments vanishes (somebody else removes it) between the creation of its .trashinfo and the move - for
    # the first, the second and the third in turn, with and without -f.  That argument failed: exit status not 0, it is named, no
    # .trashinfo of it is left, and the other two are trashed as if it had not been there
    for opts, which in itertools.product(([], ['-f'], ['-v']), (0, 1, 2)):
        names = ['va', 'vb', 'vc']
        tree = [['d', '/home/u', 0o755]] + [['f', '/home/u/w/' + n, 'content of ' + n] for n in names] + scen.canary()
        scn = {'tree': tree, 'mounts': [], 'cwd': '/home/u/w', 'uid': 0, 'env': {'HOME': '/home/u', 'TRASH_VOLUMES': '/'},
               'steps': [{'cmd': 'put', 'argv': opts + ['--'] + names, 'now': [2024, 5, 6, 7, 8, 9, 0]}]}
        base = sandbox.execute(scn)
        if not base.get('steps'):
            continue
        muts = base['steps'][0].get('muts', [])
        writes = [i for i, m in enumerate(muts) if m == 'write']
        if len(writes) != 3:
            continue
        s2 = copy.deepcopy(scn)
        s2['steps'][0]['plan'] = {'midfs': {'after': writes[which] + 1, 'ops': [['remove', '/home/u/w/' + names[which]]]}}
        r = sandbox.execute(s2)
        if not r.get('steps'):
            continue
        judge_vanish(run, s2, r, names, which, 'vanishing-argument')
        run.nontriv(('vanish', tuple(opts), which, r['steps'][0]['exit']))
    if out:
        run.sample({'level': 'state', 'argv': [esc(a) for a in out[0][0]['steps'][0]['argv']], 'kinds': [a['kind'] for a in metas[idx[id(out[0][0])]]['args']]})


def judge_vanish(run, s2, r, names, which, section):
    run.count(section)
    o = r['steps'][0]
    pairs, strays, orphans = putlib.new_trash_items(r['before'], o['after'])
    others_ok = all(('/home/u/w/' + n) not in o['after'] for i, n in enumerate(names) if i != which) and len(pairs) == len(names) - 1
    if o['exit'] == 0 or names[which] not in o['stderr'] or strays or not others_ok or o['exc'] is not None:
        run.fail('oracle', 'an argument vanished before its move: it must be reported as failed (exit status, diagnostic naming it), leave no '
                 '.trashinfo, and the other arguments must be trashed all the same',
                 {'scenario': s2, 'exit': o['exit'], 'stderr': o['stderr'][-400:], 'strays': strays, 'pairs': len(pairs), 'exc': o['exc']},
                 key='vanished-argument-not-reported', section=section)


def replay(run, payload):
    scn = (payload.get('case') or {}).get('scenario') or {}
    plan = (scn.get('steps') or [{}])[0].get('plan') or {}
    ops = (plan.get('midfs') or {}).get('ops') or []
    if payload.get('key') == 'vanished-argument-not-reported' or (ops and ops[0][0] == 'remove' and scn.get('cwd') == '/home/u/w'):
        av = scn['steps'][0]['argv']
        names = av[av.index('--') + 1:]
        gone = os.path.basename(ops[0][1])
        r = sandbox.execute(scn)
        if r.get('steps') and gone in names:
            print('trash-put', av, 'exit', r['steps'][0]['exit'], 'stderr', esc(r['steps'][0]['stderr'][-300:]))
            judge_vanish(run, scn, r, names, names.index(gone), 'replay')
        return
    if scn.get('judge_meta') and scn.get('steps'):
        meta = scn['judge_meta']
        res = sandbox.execute(scn)
        if res.get('steps'):
            solo = solo_runs([scn], [meta])
            alone = [solo.get((0, ai)) for ai in range(len(meta['args']))]
            o = res['steps'][0]
            print('trash-put', [esc(a) for a in scn['steps'][0]['argv']], 'exit', o['exit'], 'exc', o['exc'], 'stderr', esc(o['stderr'][-400:]))
            judge(run, scn, meta, res, alone, section='replay')
        return
    import p_c01
    p_c01.replay(run, payload)
