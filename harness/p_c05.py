"""C05 - killing trash-put at any instant loses nothing and leaves no orphan payload."""
import copy

import engine
import putlib
import sandbox
import scen
from common import esc

RULE = ("trace level: every generated trash-put run must issue exactly the operations of the Coq model and the Coq put-discipline monitor "
        "must accept it (exclusive create, one write of parseable content, close - all before the move to the payload path of that info); "
        "crash level: the real trash-put is stopped (_exit immediately before, and KeyboardInterrupt immediately after) EVERY syscall-level mutation (mkdir, open O_EXCL, write, rename, "
        "unlink, and every step of the copy+delete of a cross-volume home-fallback move) and the on-disk state is judged: each argument is "
        "complete at its origin or complete under files/ of a trash directory, and every payload present under files/ has a complete, "
        "parseable .trashinfo. Scenarios: entry kinds x first use of a trash dir / name collisions x same volume / home fallback across volumes. "
        "distinct = (kinds, fallback?, collision?, crash point, #mutations class).")
ASSUMPTIONS = ["each syscall-level mutation is atomic with respect to a kill; os.write of the (< 4 kB) info content is all-or-nothing"]


def gen(rng, n):
    scns, metas = [], []
    for i in range(n):
        fb = rng.random() < 0.35
        if fb:
            # the volume's own trash dirs unusable: .Trash a file, .Trash-uid a file -> home fallback across volumes
            lay = scen.Layout(rng, home_on_own_volume=False, nvols=1, nested=False, xdg='unset', top_states=['absent', 'file'])
            lay.top['/vol1'][1] = 'file'
            lay.tree.append(['f', lay.top2('/vol1'), 'blocker'])
        else:
            lay = scen.Layout(rng, nested=False)
        s, m = putlib.gen_put(rng, nargs=rng.randint(1, 2), allow_dots=False, allow_missing=False, allow_mount=(rng.random() < 0.3), options=False, layout=lay,
                              allow_bad_utf8=False)
        if fb:
            s['steps'][0]['argv'] = ['--home-fallback'] + s['steps'][0]['argv']
            s['steps'][0]['env'] = {'TRASH_ENABLE_HOME_FALLBACK': '1'}
        m['fallback'] = fb
        scns.append(s)
        metas.append(m)
    return scns, metas


def judge_crash(run, scn, meta, before, k, nmut, res, section, plan=None):
    o = res['steps'][0]
    snap = o['after']
    case = {'scenario': scn, 'crash_point': k, 'of': nmut, 'args': meta['args'], 'plan': plan}
    run.count(section)
    # (1) every payload under files/ has a complete parseable info
    for td in engine.trash_dirs_in(snap):
        eb = engine.entries_of(before, td)
        for name, e in engine.entries_of(snap, td).items():
            b = eb.get(name, {'info': None, 'payload': None})
            if e['payload'] is not None and b['payload'] is None:
                if not engine.info_parseable(e['info']):
                    run.fail('oracle', 'a killed trash-put left a payload under files/ without a complete parseable .trashinfo',
                             dict(case, trash_dir=td, name=esc(name), info=esc(e['info']) if isinstance(e['info'], bytes) else e['info']),
                             key='payload-without-info', section=section)
                    return
    # (2) each argument complete at origin or complete in a trash dir
    for a in meta['args']:
        if not a['entry']:
            continue
        ent = engine.physical(before, a['entry'])
        orig = sandbox.subtree(before, ent)
        if not orig:
            continue
        now_there = sandbox.subtree(snap, ent)
        if a['kind'] == 'mount':
            # a mount point contains its own trash directories, where trash-put may create directories and a .trashinfo it removes
            # again: the entry proper is everything else
            def proper(t):
                return {p: v for p, v in t.items() if not any(seg == '.Trash' or seg.startswith('.Trash-') for seg in p.split('/')[1:2])}
            now_there, orig = proper(now_there), proper(orig)
        at_origin = putlib.loose(now_there) == putlib.loose(orig)
        in_trash = False
        for td in engine.trash_dirs_in(snap):
            for name, e in engine.entries_of(snap, td).items():
                if e['payload'] is not None and putlib.loose(e['payload']) == putlib.loose(orig) and engine.entries_of(before, td).get(name, {}).get('payload') != e['payload']:
                    in_trash = True
        if not at_origin and not in_trash:
            run.fail('oracle', 'a killed trash-put left an entry complete neither at its origin nor in the trash',
                     dict(case, arg=esc(a['arg']), kind=a['kind']), key='entry-split', section=section)
            return
    run.nontriv((tuple(sorted(a['kind'] for a in meta['args'])), meta.get('fallback'), k, min(nmut, 40) // 8))


def sweep(run, scn, meta, section='crash', max_points=None):
    base = sandbox.execute(scn)
    if base.get('harness_error') or not base.get('steps'):
        run.fail('harness', 'sandbox failure', {'error': base.get('harness_error'), 'scenario': scn})
        return None
    nmut = base['steps'][0].get('nmut', 0)
    ks = list(range(1, nmut + 1))
    if max_points and len(ks) > max_points:
        ks = sorted(run.rng.sample(ks, max_points))
    scns = []
    for k in ks:
        s = copy.deepcopy(scn)
        s['steps'][0]['plan'] = {'crash': k}
        scns.append(s)
    # SIGINT instead of SIGKILL: KeyboardInterrupt right after the k-th mutation returned; whatever cleanup code runs, runs
    for k in ks:
        s = copy.deepcopy(scn)
        s['steps'][0]['plan'] = {'interrupt': k}
        scns.append(s)
    ks = ks + ks
    res = sandbox.execute_many(scns) if scns else []
    for k, s, r in zip(ks, scns, res):
        if r.get('harness_error') or not r.get('steps'):
            run.fail('harness', 'sandbox failure in crash run', {'error': r.get('harness_error'), 'scenario': s})
            continue
        judge_crash(run, scn, meta, base['before'], k, nmut, r, section)
    return base


def run(run, thorough):
    import random as _random_mod
    scns, metas = gen(run.rng, 120 if not thorough else 1500)
    out = engine.run_all(run, 'uninterrupted', scns)
    jobs = [('put', 'x', res['steps'][0], {'scenario': scn}) for scn, res in out]
    engine.run_monitors(run, 'put-monitor', jobs, 'the put-discipline monitor (Coq, C05) rejects the implementation trace: payload moved before its '
                        'info was created, written and closed', 'payload-before-info', silent=True)
    by_id = {id(s): m for s, m in zip(scns, metas)}
    for scn, res in out:
        putlib.conservation(run, scn, by_id[id(scn)], res, 'final-state')
    for scn, meta in zip(scns, metas):
        sweep(run, scn, meta, max_points=None if thorough else 45)
    # directed: the home trash directory is a symbolic link to a directory on ANOTHER volume.  The same-volume rule must look at
    # where the trash directory really is: then the entry goes to its own volume's trash directory by one rename, and a refused
    # system call (every k, ENOSPC) leaves either everything or nothing; a copying move into the far directory would not
    lay = scen.Layout(_random_mod.Random(7), home_on_own_volume=False, nvols=1, nested=False, xdg='unset', uid=0)
    nodes = [['d', '/vol1/realtrash', 0o700], ['l', lay.home_trash, '/vol1/realtrash'], ['d', lay.home + '/proj', 0o755],
             ['f', lay.home + '/proj/a', 'a'], ['d', lay.home + '/proj/sub', 0o755], ['f', lay.home + '/proj/sub/b', 'b'], ['f', lay.home + '/proj/c', 'c']] + scen.canary()
    lay.tree = [e for e in lay.tree if not (e[1] == lay.home_trash or e[1].startswith(lay.home_trash + '/'))]
    scn = lay.scenario([{'cmd': 'put', 'argv': ['--', lay.home + '/proj'], 'now': [2024, 5, 6, 7, 8, 9, 0]}], cwd='/', extra=nodes)
    meta = {'args': [{'arg': lay.home + '/proj', 'kind': 'd', 'entry': lay.home + '/proj', 'expect': 'trash'}], 'fallback': False}
    base = sweep(run, scn, meta, section='far-home-trash')
    if base is not None:
        nmut = base['steps'][0].get('nmut', 0)
        fs = []
        for k in range(1, nmut + 1):
            s2 = copy.deepcopy(scn)
            s2['steps'][0]['plan'] = {'sysfault': [k, 28]}
            fs.append(s2)
        for k, r in zip(range(1, nmut + 1), sandbox.execute_many(fs) if fs else []):
            if r.get('steps'):
                judge_crash(run, scn, meta, base['before'], k, nmut, r, 'far-home-trash', plan={'sysfault': [k, 28]})
    # directed: a daemon re-creates the file (re-opens its log) the instant it has been moved away - after every system call of the run in
    # turn.  What is in the trash by then stays a complete entry
    lay = scen.Layout(_random_mod.Random(11), home_on_own_volume=False, nvols=1, nested=False, xdg='unset', uid=0)
    src = lay.home + '/app.log'
    scn = lay.scenario([{'cmd': 'put', 'argv': ['--', src], 'now': [2024, 5, 6, 7, 8, 9, 0]}], cwd='/', extra=[['f', src, 'old log']] + scen.canary())
    meta = {'args': [{'arg': src, 'kind': 'f', 'entry': src, 'expect': 'trash'}], 'fallback': False}
    base = sandbox.execute(scn)
    if base.get('steps'):
        nmut = base['steps'][0].get('nmut', 0)
        fs = []
        for k in range(1, nmut + 1):
            s2 = copy.deepcopy(scn)
            s2['steps'][0]['plan'] = {'midfs': {'after': k, 'ops': [['write', src, 'a new log, opened by the daemon']]}}
            fs.append(s2)
        for k, r in zip(range(1, nmut + 1), sandbox.execute_many(fs) if fs else []):
            if r.get('steps'):
                run.count('recreated-source')
                snap = r['steps'][0]['after']
                for td in engine.trash_dirs_in(snap):
                    for name, e in engine.entries_of(snap, td).items():
                        if e['payload'] is not None and not engine.info_parseable(e['info']):
                            run.fail('oracle', 'the path was re-created by somebody else right after the move: trash-put left the payload under files/ '
                                     'without a complete .trashinfo', {'scenario': fs[k - 1], 'trash_dir': td, 'name': esc(name), 'after_mutation': k},
                                     key='payload-without-info', section='recreated-source')
    # directed: close(2) of the .trashinfo reports a deferred write error (EIO / ENOSPC / EDQUOT as on NFS or under a quota) and what had
    # been written is not there: that info file is no record of anything - no payload may be moved in beside it (oracle only: the world
    # model knows no lossy close)
    lossy = []
    for er in (5, 28, 122):
        for argv_td in ([], ['--trash-dir', '/home/u/mytd']):
            lay = scen.Layout(_random_mod.Random(13), home_on_own_volume=False, nvols=1, nested=False, xdg='unset', uid=0)
            src = lay.home + '/notes.txt'
            s2 = lay.scenario([{'cmd': 'put', 'argv': argv_td + ['--', src], 'now': [2024, 5, 6, 7, 8, 9, 0],
                                'plan': {'faults': {'close': {'errno': er, 'lossy': True}}}}], cwd='/', extra=[['f', src, 'my notes']] + scen.canary())
            lossy.append(s2)
    for s2, r in zip(lossy, sandbox.execute_many(lossy)):
        if not r.get('steps'):
            continue
        run.count('lossy-close')
        snap = r['steps'][0]['after']
        for td in engine.trash_dirs_in(snap):
            for name, e in engine.entries_of(snap, td).items():
                if e['payload'] is not None and not engine.info_parseable(e['info']):
                    run.fail('oracle', 'close() of the .trashinfo failed and its content was lost, yet trash-put moved the payload in beside it: '
                             'a payload under files/ without a complete .trashinfo', {'scenario': s2, 'trash_dir': td, 'name': esc(name), 'exit': r['steps'][0]['exit']},
                             key='payload-without-info', section='lossy-close')
        run.nontriv(('lossy-close', r['steps'][0]['exit'], len(s2['steps'][0]['argv'])))
    # directed: a mount point, named absolutely and relative to the working directory.  rename(2) of a mount point is EBUSY, so a
    # trash-put that does not refuse it degrades to copy + delete of its contents; complete run and every crash point are judged
    for spelled in ['vol1', './vol1', 'vol1/', '/vol1', '/vol1/', '../vol1']:
        lay = scen.Layout(_random_mod.Random(5), home_on_own_volume=False, nvols=1, nested=False, xdg='unset', uid=0)
        nodes = [['d', '/vol1/data', 0o755], ['f', '/vol1/data/x', 'x on the volume'], ['f', '/vol1/keep_me', 'k']] + scen.canary()
        scn = lay.scenario([{'cmd': 'put', 'argv': ['--', spelled], 'now': [2024, 5, 6, 7, 8, 9, 0]}], cwd=('/' if spelled != '../vol1' else lay.home.rsplit('/', 1)[0] if lay.home.count('/') == 2 else '/'), extra=nodes)
        if spelled == '../vol1' and scn['cwd'] == '/':
            continue
        meta = {'args': [{'arg': spelled, 'kind': 'mount', 'entry': '/vol1', 'expect': 'refuse-untouched'}], 'fallback': False}
        base = sweep(run, scn, meta, section='mount-point')
        if base is not None:
            judge_crash(run, scn, meta, base['before'], None, base['steps'][0].get('nmut', 0), base, 'mount-point')
    if scns:
        run.sample({'level': 'crash', 'argv': [esc(a) for a in scns[0]['steps'][0]['argv']], 'fallback': metas[0].get('fallback')})


def replay(run, payload):
    case = payload.get('case') or {}
    scn = case.get('scenario')
    if not scn:
        return
    import os
    res = sandbox.execute(scn)
    before = res['before']
    av = scn['steps'][0]['argv']
    av = av[av.index('--') + 1:] if '--' in av else [a for a in av if not a.startswith('-')]
    args = [{'arg': a, 'kind': '?', 'entry': os.path.normpath(os.path.join(scn.get('cwd', '/'), a)), 'expect': '?'} for a in av]
    if case.get('args'):
        args = case['args']
    meta = {'args': args, 'fallback': '--home-fallback' in scn['steps'][0]['argv']}
    if case.get('plan'):
        s2 = copy.deepcopy(scn)
        s2['steps'][0]['plan'] = case['plan']
        r2 = sandbox.execute(s2)
        if r2.get('steps'):
            judge_crash(run, scn, meta, before, case.get('crash_point'), res['steps'][0].get('nmut', 0), r2, 'replay', plan=case['plan'])
    judge_crash(run, scn, meta, before, None, res['steps'][0].get('nmut', 0), res, 'replay')
    print('trash-put', [esc(a) for a in scn['steps'][0]['argv']], 'exit', res['steps'][0]['exit'], 'mutations', res['steps'][0].get('muts'))
    sweep(run, scn, meta)
    engine.run_monitors(run, 'put-monitor', [('put', 'x', res['steps'][0], {'scenario': scn})], 'put-discipline monitor rejects', 'payload-before-info', silent=True)
