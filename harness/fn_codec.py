"""Function-level cores for the codec layer (quote/unquote/UTF-8/.trashinfo writer and readers,
strptime/strftime, posixpath).  Shared by C03, C20, C02, C10."""
import datetime
import os
import posixpath
import sys
import unicodedata

from common import tok_s, tok_n, tok_opt, tok_dt, arg_dt, REPO
from fnlevel import compare, words

CRIT = ['%', '/', '\n', '\r', '=', '[', ']', ' ', '+', '#', '?', '~', '.', '-', '_', '0', '9', 'A', 'F',
        'a', 'f', 'g', '\xe9', '€']


def _imports():
    if REPO not in sys.path:
        sys.path.insert(0, REPO)
    from trashcli.put.format_trash_info import format_trashinfo, format_original_location, format_date
    from trashcli.parse_trashinfo.parse_path import parse_path
    from trashcli.parse_trashinfo.parser_error import ParseError
    from trashcli.parse_trashinfo.parse_deletion_date import parse_deletion_date
    from trashcli.parse_trashinfo.maybe_parse_deletion_date import maybe_parse_deletion_date
    from trashcli.parse_trashinfo.parse_original_location import parse_original_location
    from six.moves.urllib.parse import unquote
    return locals()


def py_quote(F):
    def f(s):
        try:
            return 'S' + tok_s(F['format_original_location'](s))
        except UnicodeEncodeError:
            return 'N'
    return f


def py_format_trashinfo(F):
    def f(loc, d):
        try:
            return 'S' + tok_s(F['format_trashinfo'](loc, d))
        except UnicodeEncodeError:
            return 'N'
    return f


def py_parse_path(F):
    def f(c):
        try:
            return 'S' + tok_s(F['parse_path'](c))
        except F['ParseError']:
            return 'N'
    return f


def py_parse_date(F):
    def f(c):
        d = F['parse_deletion_date'](c)
        return 'N' if d is None else 'S' + tok_dt(d)
    return f


def py_strptime(s):
    try:
        return 'S' + tok_dt(datetime.datetime.strptime(s, "%Y-%m-%dT%H:%M:%S"))
    except ValueError:
        return 'N'


def py_read_text(b):
    """what open(path).read() yields for these bytes (UTF-8 locale, universal newlines)"""
    import io
    try:
        return 'S' + tok_s(io.TextIOWrapper(io.BytesIO(bytes(b)), encoding='utf-8').read())
    except UnicodeDecodeError:
        return 'N'


def rand_name(rng, maxlen=12):
    pool = CRIT + ['b', 'z', 'Z', '5', '\x01', '\x7f', '\x80', '\xff', 'Ā', '߿', 'ࠀ', '￿',
                   '\U00010000', '\U0010ffff', '\udc80', '\udcff', '\ud800', '�', '\t', "'", '"', '\\', '*']
    n = rng.choice([1, 2, 3, 5, 8, maxlen])
    return ''.join(rng.choice(pool) for _ in range(n))


def interesting_codepoints(rng, thorough):
    cps = list(range(1, 0x800))
    cps += [0x7ff, 0x800, 0xfff, 0x1000, 0xd7ff, 0xd800, 0xdbff, 0xdc00, 0xdc80, 0xdcff, 0xdfff, 0xe000,
            0xfffd, 0xffff, 0x10000, 0x1ffff, 0x10ffff]
    step = 97 if not thorough else 7
    cps += list(range(0x800, 0x110000, step))
    return cps


def quote_unquote(run, thorough):
    F = _imports()
    rng = run.rng
    # quote: every single code point of the sweep, every pair over the critical alphabet, random names
    cases = [(chr(c),) for c in interesting_codepoints(rng, thorough)]
    cases += [(a + b,) for a in CRIT for b in CRIT]
    cases += [(rand_name(rng),) for _ in range(3000 if not thorough else 30000)]
    cases += [('/' + '/'.join(rand_name(rng, 6).replace('/', '') or 'x' for _ in range(rng.randint(1, 12))),)
              for _ in range(500)]
    cases += [('x' * 255,), ('\xe9' * 127,), ('',), ('/',)]

    def kq(args, rep):
        s = args[0]
        return ('quote', rep[0], min(len(s), 4), any(ord(c) > 127 for c in s), '%' in s)
    compare(run, 'quote', 'quote', py_quote(F), cases, (tok_s,), kq)

    # unquote: every %xy with x,y in a critical hex alphabet, in three contexts; pairs; random
    hx = '0123456789ABCDEFabcdefgG%'
    ucases = []
    for x in hx:
        for y in hx:
            for ctx in ('%s', 'a%sb', '%%%s' , '\xe9%s€', '%sC3%%A9'):
                try:
                    ucases.append((ctx % ('%' + x + y),))
                except (TypeError, ValueError):
                    pass
    # all two- and three-byte escape sequences over boundary bytes (exercises the 'replace' decoder)
    bb = [0x00, 0x41, 0x7f, 0x80, 0x8f, 0x90, 0x9f, 0xa0, 0xbf, 0xc0, 0xc1, 0xc2, 0xdf, 0xe0, 0xe1, 0xec, 0xed,
          0xee, 0xef, 0xf0, 0xf1, 0xf3, 0xf4, 0xf5, 0xff]
    for a in bb:
        ucases.append(('%%%02X' % a,))
        for b in bb:
            ucases.append(('%%%02X%%%02x' % (a, b),))
            ucases.append(('%%%02X%%%02xz' % (a, b),))
    sub = bb if thorough else [0x41, 0x80, 0x8f, 0x90, 0xa0, 0xbf, 0xc2, 0xe0, 0xed, 0xf0, 0xf4, 0xff]
    for a in sub:
        for b in sub:
            for c in sub:
                ucases.append(('%%%02X%%%02X%%%02X' % (a, b, c),))
                if thorough or (a >= 0xf0):
                    for d in (0x80, 0xbf, 0x41, 0xc2):
                        ucases.append(('%%%02X%%%02X%%%02X%%%02X' % (a, b, c, d),))
    ucases += [(a + b,) for a in CRIT for b in CRIT]
    ucases += [(rand_name(rng),) for _ in range(3000)]
    ucases += [(''.join(rng.choice(['%', 'C', '3', 'A', '9', 'e', '2', '8', 'x', '\xe9', '%%', '%41']) for _ in range(rng.randint(1, 10))),)
               for _ in range(3000 if not thorough else 30000)]

    def ku(args, rep):
        s = args[0]
        return ('unquote', '�' in rep, s.count('%') if s.count('%') < 4 else 4, any(ord(c) > 127 for c in s))
    compare(run, 'unquote', 'unquote', lambda s: tok_s(F['unquote'](s)), ucases, (tok_s,), ku)


def utf8(run, thorough):
    rng = run.rng
    bb = [0x00, 0x41, 0x7f, 0x80, 0x8f, 0x90, 0x9f, 0xa0, 0xbf, 0xc0, 0xc1, 0xc2, 0xdf, 0xe0, 0xe1, 0xec, 0xed,
          0xee, 0xef, 0xf0, 0xf1, 0xf3, 0xf4, 0xf5, 0xff]
    cases = [(bytes([a]),) for a in range(256)]
    cases += [(bytes([a, b]),) for a in bb for b in bb]
    cases += [(bytes([a, b, c]),) for a in bb for b in bb for c in bb]
    if thorough:
        cases += [(bytes([a, b, c, d]),) for a in bb[13:] for b in bb for c in bb for d in bb]
    else:
        cases += [(bytes([a, b, c, d]),) for a in (0xf0, 0xf1, 0xf4) for b in bb for c in (0x80, 0xbf, 0x41, 0xc2) for d in bb]
    cases += [(bytes(rng.choice(bb) for _ in range(rng.randint(1, 9))),) for _ in range(3000)]

    def k(args, rep):
        return ('utf8', rep.count('fffd') if rep.count('fffd') < 4 else 4, len(args[0]))
    compare(run, 'utf8_decode_replace', 'utf8_decode_replace',
            lambda b: tok_s(b.decode('utf-8', 'replace')), cases, (tok_s,), k)

    def strict(b):
        try:
            return 'S' + tok_s(b.decode('utf-8', 'strict'))
        except UnicodeDecodeError:
            return 'N'
    compare(run, 'utf8_decode_strict', 'utf8_decode_strict', strict, cases, (tok_s,),
            lambda a, r: ('strict', r[0], len(a[0])))
    compare(run, 'fsdecode', 'fsdecode', lambda b: tok_s(os.fsdecode(b)), cases, (tok_s,),
            lambda a, r: ('fsdecode', 'dc' in r, len(a[0])))
    compare(run, 'read_text', 'read_text', py_read_text,
            cases[:2000] + [(x.encode(),) for x in ('a\r\nb', 'a\rb', 'a\r', '\r\n\r\n', '\r\r\n', 'a\n\rb', '')],
            (tok_s,), lambda a, r: ('read_text', r[0], b'\r' in a[0]))


DATE_STRINGS = None


def date_strings(rng, thorough):
    """lexical boundary set for strptime('%Y-%m-%dT%H:%M:%S')"""
    out = set()
    years = ['2024', '1999', '2000', '1900', '0001', '0000', '9999', '999', '12345', '202', ' 2024', '20 4', '2100']
    months = ['1', '01', '9', '09', '10', '12', '13', '0', '00', '2', '02', '012', ' 1', '1 ']
    days = ['1', '01', '9', '10', '28', '29', '30', '31', '32', '0', '00', ' 1', ' 9', '  1', '031']
    hours = ['0', '00', '9', '09', '19', '20', '23', '24', '2', '025']
    mins = ['0', '00', '5', '59', '60', '6', '099']
    secs = ['0', '00', '59', '60', '61', '62', '7', '5']
    seps = ['T', 't', ' ', 'TT', '']
    base = ('2024', '02', '29', 'T', '13', '45', '59')

    def mk(y, m, d, s, H, M, S):
        return '%s-%s-%s%s%s:%s:%s' % (y, m, d, s, H, M, S)
    for y in years:
        for m in ('02', '2', '12'):
            for d in ('28', '29', '30', '31'):
                out.add(mk(y, m, d, 'T', '00', '00', '00'))
    for m in months:
        for d in days:
            out.add(mk('2023', m, d, 'T', '1', '2', '3'))
            out.add(mk('2024', m, d, 'T', '01', '02', '03'))
    for H in hours:
        for M in mins:
            for S in secs:
                out.add(mk('2024', '1', '1', 'T', H, M, S))
    for s in seps:
        out.add(mk(*base[:3], s, *base[4:]))
    for tail in ['', ' ', 'x', '0', '\n', '.5', 'Z', '+00:00']:
        out.add(mk(*base) + tail)
        out.add(mk('2024', '1', '1', 'T', '1', '1', '1') + tail)
    for lead in [' ', 'x', '\t']:
        out.add(lead + mk(*base))
    # non-ASCII decimal digits in every position class
    ar = '٠١٢٣٤٥٦٧٨٩'
    fw = '０１２３'
    out.add(mk(ar[2] + ar[0] + ar[2] + ar[4], '1', '1', 'T', '1', '1', '1'))
    out.add(mk('2024', ar[1], '1', 'T', '1', '1', '1'))
    out.add(mk('2024', '1' + ar[1], '1', 'T', '1', '1', '1'))
    out.add(mk('2024', '1', ar[1], 'T', '1', '1', '1'))
    out.add(mk('2024', '1', '1' + ar[5], 'T', '1', '1', '1'))
    out.add(mk('2024', '1', '3' + ar[1], 'T', '1', '1', '1'))
    out.add(mk('2024', '1', '1', 'T', ar[3], ar[4], ar[5]))
    out.add(mk('2024', '1', '1', 'T', '1' + ar[3], '5' + ar[4], '5' + ar[5]))
    out.add(mk('2024', '1', '1', 'T', '2' + ar[3], '6' + ar[4], '6' + ar[0]))
    out.add(mk('2024', '1', '1', 'T', fw[1] + fw[2], '1', '1'))
    out.add(mk('2024', '1', '1', 'T', ar[1] + '2', '1', '1'))
    out.add(mk('20' + fw[2] + '4', '1', '1', 'T', '1', '1', '1'))
    out |= {'', 'T', '2024', '2024-', '2024-1', '2024-1-', '2024-1-1', '2024-1-1T', '2024-1-1T1', '2024-1-1T1:',
            '2024-1-1T1:1', '2024-1-1T1:1:', '2024-01-01 00:00:00', '2024/01/01T00:00:00', '2024-01-01T00-00-00'}
    n = 400 if not thorough else 6000
    chars = '0123456789-T: t' + ar[1]
    for _ in range(n):
        s = list(mk('2024', rng.choice(months), rng.choice(days), 'T', rng.choice(hours), rng.choice(mins), rng.choice(secs)))
        for _ in range(rng.randint(0, 2)):
            i = rng.randrange(len(s))
            s[i] = rng.choice(chars)
        out.add(''.join(s))
    return sorted(out)


def dates(run, thorough):
    F = _imports()
    rng = run.rng
    ds = date_strings(rng, thorough)

    def k(args, rep):
        s = args[0]
        return ('strptime', rep[0], len(s), s.count('-'), any(ord(c) > 127 for c in s))
    compare(run, 'strptime', 'strptime', py_strptime, [(s,) for s in ds], (tok_s,), k)
    # strftime: every day of a span of years at boundary times (quick: 1970-2100 every 3rd day ...)
    cases = []
    d0 = datetime.date(1970, 1, 1)
    step = 1 if thorough else 3
    for n in range(0, (datetime.date(2101, 1, 1) - d0).days, step):
        d = d0 + datetime.timedelta(days=n)
        tt = [(0, 0, 0), (23, 59, 59), (rng.randrange(24), rng.randrange(60), rng.randrange(60))][n % 3]
        cases.append((datetime.datetime(d.year, d.month, d.day, *tt, rng.randrange(1000000)),))
    for y in [1, 9, 10, 99, 100, 999, 1000, 1001, 1582, 1600, 1900, 2000, 2100, 2400, 9999]:
        for (m, dd) in [(1, 1), (2, 28), (3, 1), (12, 31)]:
            cases.append((datetime.datetime(y, m, dd, 12, 34, 56),))
        try:
            cases.append((datetime.datetime(y, 2, 29, 1, 2, 3),))
        except ValueError:
            pass
    compare(run, 'format_date', 'format_date', lambda d: tok_s(F['format_date'](d)), cases, (arg_dt,),
            lambda a, r: ('fmt', a[0].year < 1000, a[0].month, a[0].day > 28))
    return ds


def trashinfo(run, thorough, date_strs):
    F = _imports()
    rng = run.rng
    # writer
    locs = [rand_name(rng) for _ in range(1500)] + [a + b for a in CRIT for b in CRIT][:300] + \
           ['/home/u/' + rand_name(rng).replace('/', '') for _ in range(300)]
    wcases = []
    for loc in locs:
        d = datetime.datetime(rng.choice([1000, 1999, 2024, 9999]), rng.randint(1, 12), rng.randint(1, 28),
                              rng.randrange(24), rng.randrange(60), rng.randrange(60), rng.randrange(1000000))
        wcases.append((loc, d))
    compare(run, 'format_trashinfo', 'format_trashinfo', py_format_trashinfo(F), wcases, (tok_s, arg_dt),
            lambda a, r: ('fmt_ti', r[0], min(len(a[0]), 3), '%' in a[0], '\n' in a[0]))
    # readers on arbitrary contents
    frag = ['[Trash Info]', 'Path=', 'Path=/a/b', 'Path=rel/x', 'Path=%41%2Fb', 'path=/low', ' Path=/sp', 'Path=/a ', 'Path=',
            'DeletionDate=2024-01-02T03:04:05', 'DeletionDate=2024-1-2T3:4:5', 'DeletionDate=bogus', 'DeletionDate=',
            'DeletionDate=2024-01-02t03:04:05', 'deletiondate=2024-01-02T03:04:05', 'DeletionDate=2024-02-30T00:00:00',
            'DeletionDate=2001-01-01T00:00:00', 'DeletionDate=2024-01-02T03:04:05 ', 'DeletionDate=2024-01-02T03:04:60',
            '', ' ', '[Other]', 'Key=Value', 'Path=/second', 'X-Path=/no', 'Path=%C3%A9%ff', 'Path=/€', 'DeletionDate=2024-01-02T03:04:05\r']
    ccases = []
    for a in frag:
        ccases.append((a,))
        for b in frag:
            ccases.append((a + '\n' + b,))
            ccases.append((a + '\n' + b + '\n',))
    for _ in range(2000 if not thorough else 20000):
        k = rng.randint(1, 6)
        ccases.append((rng.choice(['\n', '\n', '\n\n', '']).join(rng.choice(frag) for _ in range(k)) + rng.choice(['', '\n']),))
    for s in date_strs[:: (1 if thorough else 5)]:
        ccases.append(('[Trash Info]\nPath=/x\nDeletionDate=' + s + '\n',))

    def kc(args, rep):
        c = args[0]
        return (rep[0], c.count('Path='), c.count('DeletionDate='), min(c.count('\n'), 4))
    compare(run, 'parse_path', 'parse_path', py_parse_path(F), ccases, (tok_s,), lambda a, r: ('pp',) + kc(a, r))
    compare(run, 'parse_deletion_date', 'parse_deletion_date', py_parse_date(F), ccases, (tok_s,),
            lambda a, r: ('pd',) + kc(a, r))
    compare(run, 'maybe_parse_deletion_date', 'maybe_parse_deletion_date',
            lambda c: tok_s(str(F['maybe_parse_deletion_date'](c))), ccases, (tok_s,),
            lambda a, r: ('mpd', '3f' in r) + kc(a, r)[1:])

    def pol(c, v):
        try:
            return 'S' + tok_s(F['parse_original_location'](c, v))
        except F['ParseError']:
            return 'N'
    vols = ['/', '/vol', '/vol/', '', 'rel', '//']
    compare(run, 'parse_original_location', 'parse_original_location', pol,
            [(c[0], rng.choice(vols)) for c in ccases[:3000]], (tok_s, tok_s),
            lambda a, r: ('pol', r[0], a[1], 'Path=/' in a[0]))


def posix(run, thorough):
    n = 6 if thorough else 5
    ws = list(words('./a', n))
    compare(run, 'basename', 'basename', lambda p: tok_s(posixpath.basename(p)), [(w,) for w in ws], (tok_s,),
            lambda a, r: ('bn', r), exhaustive=True)
    compare(run, 'dirname', 'dirname', lambda p: tok_s(posixpath.dirname(p)), [(w,) for w in ws], (tok_s,),
            lambda a, r: ('dn', r), exhaustive=True)
    ws2 = list(words('./a', n + 2)) if thorough else list(words('./a', n + 1))
    compare(run, 'normpath', 'normpath', lambda p: tok_s(posixpath.normpath(p)), [(w,) for w in ws2], (tok_s,),
            lambda a, r: ('np', r), exhaustive=True)
    ws3 = list(words('./a', 3))
    compare(run, 'join2', 'join2', lambda a, b: tok_s(posixpath.join(a, b)), [(a, b) for a in ws3 for b in ws3],
            (tok_s, tok_s), lambda a, r: ('join', r), exhaustive=True)
