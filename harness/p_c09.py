"""C09 - trash-list shows exactly what is in the trash after any history of commands."""
import datetime
import os

import engine
import sandbox
import scen
import p_c12
from common import esc

RULE = ("trace level: exact correspondence of EVERY command of every history with the Coq models; history level: generated sequences of "
        "trash-put / trash-restore / trash-rm / trash-empty (quick: 150 histories of up to 8 commands; thorough: 1500 of up to 30) over "
        "several volumes and directories, with repeated names, nested paths, entries restored and trashed again, are run against an "
        "INDEPENDENT bag model (in this file: a multiset of (absolute original path, deletion second); put adds one element, restore removes "
        "the elements printed at the chosen indices, rm those whose name matches by an independent glob matcher, empty those older than "
        "the threshold / all); after EVERY step trash-list's output, as a multiset of records 'date SP path', must equal the bag. "
        "distinct = (command sequence shape, #volumes, bag size class).")
ASSUMPTIONS = ["every command of a history looks at the same trash directories (mount list = TRASH_VOLUMES, no --trash-dir pointing elsewhere)",
               "one record per entry = 'date SP path LF'; a name containing a newline makes the record span two physical lines"]

FMT = '%Y-%m-%dT%H:%M:%S'


RULE += ' Since round 10: trash-empty steps that read the wall clock under a time zone away from Greenwich, and steps that ask first (-i) with a yes or a no.'
RULE += ' Since round 8: trash-rm steps whose payload removals are all refused (nothing purged, everything still listed); non-sticky .Trash modes include 0700/0750.'


def gen_history(rng, maxlen):
    lay = scen.Layout(rng, nested=False, home_on_own_volume=False, xdg='unset')
    for v in lay.all_vols:                        # usable trash dirs everywhere
        if lay.top[v][1] == 'file':
            lay.top[v][1] = 'absent'
            lay.tree = [e for e in lay.tree if e[1] != lay.top2(v)]
    # sometimes one volume has no usable trash directory at all: with --home-fallback its files go to the home trash ACROSS file
    # systems (copy + delete), and a fault in the middle of that copy must not leave anything trash-list would show
    dead = None
    if lay.vols and rng.random() < 0.35:
        dead = rng.choice(lay.vols)
        lay.top[dead] = ['file', 'file']
        lay.tree = [e for e in lay.tree if not (e[1] == lay.j(dead, '.Trash') or e[1].startswith(lay.j(dead, '.Trash') + '/')
                                                or e[1] == lay.top2(dead) or e[1].startswith(lay.top2(dead) + '/') or e[1] == lay.j(dead, 'realtrash'))]
        lay.tree += [['f', lay.j(dead, '.Trash'), 'not a directory'], ['f', lay.top2(dead), 'not a directory']]
    roots = [lay.home] + lay.vols
    names = ['a', 'b', 'foo', 'foo.txt', 'a b', 'é', 'x%y', 'x%41y', 'p%20q', '...', '....', '.hid']
    nodes = scen.canary()
    files = []
    for r in roots:
        for sub in ('', 'd', 'd/e'):
            for nm in rng.sample(names, 3):
                p = r + ('/' + sub if sub else '') + '/' + nm
                nodes.append(['f', p, 'content of ' + p])
                files.append(p)
    # symbolic links (to a file, to an existing directory, to nothing) are entries like any other
    for r in roots:
        if rng.random() < 0.5:
            for nm, tgt in (('lnk_f', '/canary/file'), ('lnk_d', '/canary/dir'), ('lnk_x', 'no/where')):
                if rng.random() < 0.6:
                    nodes.append(['l', r + '/' + nm, tgt])
                    files += [r + '/' + nm] * 4
    if rng.random() < 0.3:
        p = rng.choice(roots) + '/' + '/'.join(['\u6f22' * 80] * rng.choice([6, 7])) + '/report.txt'
        nodes.append(['f', p, 'content of a file with a long path'])
        files += [p] * 4
    # $topdir/.Trash-$uid as a symbolic link to a directory of the same volume (the trash kept where there is room): trash-put uses it,
    # so everybody else reads it
    for v in lay.all_vols:
        if lay.top[v][1] == 'absent' and rng.random() < 0.3:
            nodes += [['d', scen.Layout.j(v, '.t2real'), 0o700], ['l', lay.top2(v), scen.Layout.j(v, '.t2real')]]
            lay.top[v][1] = 'dir'
    # entries already in the trash when the history starts: in EVERY usable directory (home, .Trash/$uid when secure, .Trash-$uid)
    initial = []
    k0 = 0
    for td, vol in lay.readable_dirs() + [(lay.top2(v), v) for v in lay.all_vols if lay.top[v][1] == 'absent' and rng.random() < 0.5]:
        if rng.random() < 0.6:
            nm = 'old%d' % k0
            k0 += 1
            rel = 'was/' + nm
            pathv = rel if td != lay.home_trash else '/was/' + nm
            nodes += scen.entry(td, nm, pathv, '2023-12-%02dT10:00:00' % (10 + k0), 'f')
            initial.append(('2023-12-%02d 10:00:00' % (10 + k0), os.path.join(vol, rel) if td != lay.home_trash else '/was/' + nm))
    if rng.random() < 0.4:
        # an entry dated in the future (a clock that was set back): 'trash-empty 0' keeps it, it is not older than now
        nodes += scen.entry(lay.home_trash, 'future', '/was/future', '2099-01-01T00:00:00', 'f')
        initial.append(('2099-01-01 00:00:00', '/was/future'))
    steps, plan = [{'cmd': 'list', 'argv': []}], [('init', initial)]
    t = datetime.datetime(2024, 1, 1, 0, 0, 0)
    for k in range(rng.randint(3, maxlen)):
        r = rng.random()
        t += datetime.timedelta(days=rng.choice([0, 0, 1, 3]), seconds=rng.randint(1, 50))
        if r < 0.5:
            p = rng.choice(files)
            st = {'cmd': 'put', 'argv': ['--', p], 'now': [t.year, t.month, t.day, t.hour, t.minute, t.second, 0]}
            if dead is not None and (p == dead or p.startswith(dead + '/')):
                st['argv'] = ['--home-fallback'] + st['argv']
                st['env'] = {'TRASH_ENABLE_HOME_FALLBACK': '1'}
                if rng.random() < 0.5:
                    st['plan'] = {'sysfault': [rng.randint(2, 9), rng.choice([13, 28, 5, 1])]}
            elif rng.random() < 0.08:
                st['plan'] = {'sysfault': [rng.randint(1, 5), rng.choice([13, 28, 5, 1])]}
            steps.append(st)
            plan.append(('put', p, t))
        elif r < 0.7:
            scope = rng.choice(['/', lay.home] + lay.vols)
            reply = rng.choice(['0', '0,1', '1', '0-1', '', '2', '1-0', '2-1', '0,2-1'])       # a range typed backwards denotes nothing
            st = {'cmd': 'restore', 'argv': [scope, '--sort', rng.choice(['date', 'path'])], 'stdin': reply + '\n'}
            faulted = rng.random() < 0.15
            if faulted:
                # the file system refuses the move (EACCES): nothing is restored, and the entry is still in the trash, listed
                st['plan'] = {'faults': {'move': {'errno': 13}}}
            steps.append(st)
            plan.append(('restore', scope, reply, faulted))
        elif r < 0.85:
            # (a pattern with a slash that is not its first character is compared with base names, which have none: it selects nothing)
            pat = rng.choice(['a', 'foo*', '*.txt', '*', '/home/u/d/*', 'é', '?', 'zzz', lay.vols[0] + '/*' if lay.vols else '/x', '*d/a', '*/foo.txt', '*u/*', 'd/e/*'])
            st = {'cmd': 'rm', 'argv': [pat]}
            if rng.random() < 0.15:
                # the file system refuses the removal of every payload (a read-only bind, immutable files): whatever trash-rm says then,
                # nothing was purged and every entry is still listed
                st['plan'] = {'faults': {'remove': {'errno': 13, 'path': '/files/'}, 'rmtree': {'errno': 13, 'path': '/files/'}}}
            steps.append(st)
            plan.append(('rm', pat) if 'plan' not in st else ('rm-refused', pat))
        else:
            days = rng.choice([None, 0, 1, 2, 5])
            now = t + datetime.timedelta(seconds=1)
            if days is not None and rng.random() < 0.35:
                # exactly DAYS days, to the second, after one of the entries was trashed: that entry is DAYS days old, not older - it stays
                known = [datetime.datetime.strptime(d, '%Y-%m-%d %H:%M:%S') for d, _ in initial if not d.startswith('2099')] + \
                        [datetime.datetime(*st2['now'][:6]) for st2 in steps if st2['cmd'] == 'put' and st2.get('now')]
                if known:
                    now = rng.choice(known) + datetime.timedelta(days=days)
            st = {'cmd': 'empty', 'argv': ([str(days)] if days is not None else []) + ['-f'], 'env': {'TRASH_DATE': now.strftime(FMT)}}
            declined = False
            mode = rng.random()
            if mode < 0.2:
                # the wall clock instead of TRASH_DATE, in a time zone away from Greenwich: deletion dates are local times, and so is "now"
                st['env'] = {'TZ': rng.choice(['XST8', 'XST-9', 'XST3:30'])}
                st['now'] = [now.year, now.month, now.day, now.hour, now.minute, now.second, 0]
            elif mode < 0.4:
                # asked first (-i): "y" purges exactly what -f purges, anything else purges nothing
                reply = rng.choice(['y', 'y', 'Y', 'n', ''])
                st['argv'][-1] = '-i'
                st['stdin'] = reply + '\n'
                declined = reply not in ('y', 'Y')
            fresh = None
            if not declined and rng.random() < 0.3:
                # while trash-empty runs (right after its k-th removal) another trash-put completes in the home trash: a whole, brand-new
                # entry.  Whatever trash-empty had listed before, that entry stays whole and is listed afterwards
                fname = 'fresh%d' % k
                fdate = now.strftime(FMT)
                # (midfs: right after the k-th removal; midlib: right after the k-th library operation, e.g. between two listings)
                # (like the real trash-put, it makes sure that info/ and files/ exist first)
                st['plan'] = {rng.choice(['midfs', 'midlib', 'midlib']): {'after': 0, 'ops': [
                    ['mkdir', lay.home_trash + '/info', 0o700], ['mkdir', lay.home_trash + '/files', 0o700],
                    ['write', lay.home_trash + '/info/' + fname + '.trashinfo', scen.TI % (scen.quote('/was/' + fname), fdate)],
                    ['write', lay.home_trash + '/files/' + fname, 'fresh payload']]}}
                for kk, vv in st['plan'].items():
                    vv['after'] = rng.choice([1, 1, 2, 3]) if kk == 'midfs' else rng.randint(2, 40)
                fresh = (fname, fdate.replace('T', ' '), '/was/' + fname)
            steps.append(st)
            plan.append(('empty', days, now, fresh, declined))
        steps.append({'cmd': 'list', 'argv': []})
        plan.append(('list',))
    scn = lay.scenario(steps, cwd='/', extra=nodes)
    scn['initial_bag'] = [list(x) for x in initial]          # carried in the scenario so that a replay judges against the same bag
    return scn, plan


def parse_records(out):
    """multiset of (date, path) - paths here contain no newline"""
    recs = []
    for ln in out.split('\n'):
        if len(ln) >= 20 and ln[19] == ' ':
            recs.append((ln[:19], ln[20:]))
    return sorted(recs)


def judge(run, scn, plan, res, section='history'):
    run.count(section)
    bag = []                       # [(date 'YYYY-MM-DD HH:MM:SS', path)]
    snap = res['before']
    for k, (st, pl, o) in enumerate(zip(scn['steps'], plan, res['steps'])):
        case = {'scenario': {**scn, 'steps': scn['steps'][:k + 1]}, 'step': k, 'command': [st['cmd'], st['argv'], st.get('stdin')], 'exit': o['exit'],
                'stderr': o['stderr'][-300:], 'bag': bag[:12]}
        if o['exc'] and pl[0] != 'rm-refused':      # (trash-rm does end with a traceback when a removal is refused: C16's business, not the listing's)
            run.fail('oracle', 'a command of the history ended with a traceback', case, key='traceback', section=section)
            return
        if pl[0] == 'init':
            bag = list(pl[1])
            got = parse_records(o['stdout'])
            if got != sorted(bag):
                run.fail('oracle', 'trash-list does not show exactly the entries present in the usable trash directories',
                         dict(case, listed=got[:12], expected=sorted(bag)[:12]), key='list-differs-from-bag', section=section)
                return
        elif pl[0] == 'rm-refused':
            pass                          # no payload could be removed: nothing was purged, the bag stays as it was
        elif pl[0] == 'put':
            if pl[1] in snap and o['exit'] == 0:
                bag.append((pl[2].strftime('%Y-%m-%d %H:%M:%S'), pl[1]))
        elif pl[0] == 'restore':
            rows = []
            for l in o['stdout'].split('\n'):
                if l[:4].strip().isdigit() and len(l) > 5 and l[4] == ' ':
                    rest = l[5:]
                    rows.append((rest[:19], rest[20:]))
            import p_c13
            if pl[2] != '' and rows:
                d = p_c13.denote(pl[2], len(rows))
                if d[0] == 'ok' and not (len(pl) > 3 and pl[3]):
                    exists = set(snap)
                    for i in d[1]:
                        date, path = rows[i]
                        if path in exists or any(engine.under(path, x) and snap.get(x, ('',))[0] != 'd' for x in exists if x != '/' and path.startswith(x + '/')):
                            break
                        if (date, path) in bag:
                            bag.remove((date, path))
                        exists.add(path)
        elif pl[0] == 'rm':
            pat = pl[1]
            keep = []
            for date, path in bag:
                subject = path if pat.startswith('/') else os.path.basename(path)
                m = p_c12.gmatch(pat, subject)
                if not m:
                    keep.append((date, path))
            bag = keep
        elif pl[0] == 'empty' and len(pl) > 4 and pl[4]:
            pass                                   # asked, and the answer was not yes: nothing leaves the trash
        elif pl[0] == 'empty':
            days, now = pl[1], pl[2]
            if days is None:
                bag = []
            else:
                lim = now - datetime.timedelta(days=days)
                bag = [(d, p) for d, p in bag if not datetime.datetime.strptime(d, '%Y-%m-%d %H:%M:%S') < lim]
            fresh = pl[3] if len(pl) > 3 else None
            if fresh:
                td = scn['env'].get('XDG_DATA_HOME', scn['env'].get('HOME', '') + '/.local/share') + '/Trash'
                info_p, pay_p = td + '/info/' + fresh[0] + '.trashinfo', td + '/files/' + fresh[0]
                if info_p in o['after'] or pay_p in o['after']:
                    if not (info_p in o['after'] and pay_p in o['after']):
                        run.fail('oracle', 'an entry that another trash-put completed while trash-empty was running lost its payload or its info: '
                                 'trash-empty purged half of an entry younger than anything it had decided about', dict(case, fresh=fresh),
                                 key='fresh-entry-split', section=section)
                        return
                    bag.append((fresh[1], fresh[2]))
        else:
            got = parse_records(o['stdout'])
            if got != sorted(bag):
                run.fail('oracle', 'trash-list does not show exactly the entries the history left in the trash',
                         dict(case, listed=got[:12], expected=sorted(bag)[:12],
                              missing=[x for x in sorted(bag) if x not in got][:6], unexpected=[x for x in got if x not in bag][:6]),
                         key='list-differs-from-bag', section=section)
                return
        snap = o['after']
    run.nontriv((tuple(p[0] for p in plan if p[0] not in ('list', 'init'))[:10], len(scn['mounts']), min(len(bag), 5)))


def run(run, thorough):
    rng = run.rng
    items = [gen_history(rng, 8 if not thorough else 30) for _ in range(150 if not thorough else 1500)]
    scns = [s for s, p in items]
    out = engine.run_all(run, 'history', scns)
    by_id = {id(s): p for s, p in items}
    for scn, res in out:
        judge(run, scn, by_id[id(scn)], res)
    # directed: a trashed symbolic link to a directory that still exists is an entry like any other - trash-rm / trash-empty remove it
    # (the link, not what it points to), and it is listed until then
    import itertools
    dirs = []
    for purge, tk in itertools.product((('rm', 'lnk_d'), ('rm', '*'), ('empty', None), ('empty', 0)), ('/canary/dir', '../../canary/dir')):
        t1, t2, t3 = datetime.datetime(2024, 1, 1, 0, 0, 5), datetime.datetime(2024, 1, 1, 0, 0, 9), datetime.datetime(2024, 1, 2, 0, 0, 0)
        tree = scen.canary() + [['d', '/home/u', 0o755], ['l', '/home/u/lnk_d', tk], ['f', '/home/u/f', 'f']]
        steps = [{'cmd': 'list', 'argv': []},
                 {'cmd': 'put', 'argv': ['--', '/home/u/lnk_d'], 'now': [2024, 1, 1, 0, 0, 5, 0]}, {'cmd': 'list', 'argv': []},
                 {'cmd': 'put', 'argv': ['--', '/home/u/f'], 'now': [2024, 1, 1, 0, 0, 9, 0]}, {'cmd': 'list', 'argv': []}]
        plan = [('init', []), ('put', '/home/u/lnk_d', t1), ('list',), ('put', '/home/u/f', t2), ('list',)]
        if purge[0] == 'rm':
            steps.append({'cmd': 'rm', 'argv': [purge[1]]})
            plan.append(('rm', purge[1]))
        else:
            steps.append({'cmd': 'empty', 'argv': ([str(purge[1])] if purge[1] is not None else []) + ['-f'], 'env': {'TRASH_DATE': t3.strftime(FMT)}})
            plan.append(('empty', purge[1], t3, None))
        steps.append({'cmd': 'list', 'argv': []})
        plan.append(('list',))
        dirs.append(({'tree': tree, 'mounts': [], 'cwd': '/', 'uid': 1000, 'env': {'HOME': '/home/u', 'TRASH_VOLUMES': '/'}, 'steps': steps}, plan))
    outd = engine.run_all(run, 'history-link-to-dir', [s for s, p in dirs])
    byd = {id(s): p for s, p in dirs}
    for scn, res in outd:
        judge(run, scn, byd[id(scn)], res, section='history-link-to-dir')
    # directed: trash-rm whose payload removals are all refused (a write-protected directory inside a trashed directory, an immutable
    # file): nothing is purged - every entry keeps its .trashinfo and is still listed, whatever the command's exit status
    refd = []
    for kind, pat in (('d', 'proj'), ('f', 'proj'), ('d', '*'), ('d', '/home/u/proj')):
        t1 = datetime.datetime(2024, 1, 1, 0, 0, 5)
        tree = scen.canary() + [['d', '/home/u', 0o755]] + ([['d', '/home/u/proj', 0o755], ['f', '/home/u/proj/a', 'a']] if kind == 'd' else [['f', '/home/u/proj', 'p']])
        steps = [{'cmd': 'list', 'argv': []}, {'cmd': 'put', 'argv': ['--', '/home/u/proj'], 'now': [2024, 1, 1, 0, 0, 5, 0]}, {'cmd': 'list', 'argv': []},
                 {'cmd': 'rm', 'argv': [pat], 'plan': {'faults': {'remove': {'errno': 13, 'path': '/files/'}, 'rmtree': {'errno': 13, 'path': '/files/'}}}},
                 {'cmd': 'list', 'argv': []}]
        plan = [('init', []), ('put', '/home/u/proj', t1), ('list',), ('rm-refused', pat), ('list',)]
        refd.append(({'tree': tree, 'mounts': [], 'cwd': '/', 'uid': 1000, 'env': {'HOME': '/home/u', 'TRASH_VOLUMES': '/'}, 'steps': steps}, plan))
    byr = {id(s): p for s, p in refd}
    for scn, res in engine.run_all(run, 'history-rm-refused', [s for s, p in refd], strict=False):
        judge(run, scn, byr[id(scn)], res, section='history-rm-refused')
    concurrent_puts(run, thorough)
    if items:
        run.sample({'level': 'history', 'commands': [[s['cmd'], s['argv']] for s in scns[0]['steps'] if s['cmd'] != 'list'][:8], 'mounts': scns[0]['mounts']})


def concurrent_puts(run, thorough):
    """two trash-puts of same-named entries at once (the lock-step scheduler of C04): both exit 0, so the trash holds two entries - two
    complete pairs, each with the Path of its own file; one line each for trash-list"""
    import p_c04
    scheds = p_c04.schedules_systematic()
    for shape, sched in (scheds if thorough else scheds[:16] + scheds[-3:]):
        scn, steps, victims = p_c04.make_scn(2, ('f', 'f'), 'empty')
        res = sandbox.execute_concurrent(scn, steps, sched)
        p_c04.judge(run, dict(scn, steps=steps), res, victims, 'empty', shape, 'concurrent-puts')


def replay(run, payload):
    if 'schedule' in (payload.get('case') or {}):
        import p_c04
        return p_c04.replay(run, payload)
    case = payload.get('case') or {}
    scn = case.get('scenario')
    if not scn:
        return
    res = sandbox.execute(scn)
    for st, o in zip(scn['steps'], res['steps']):
        print(st['cmd'], st['argv'], repr(st.get('stdin')), 'exit', o['exit'], esc(o['stdout'][-300:]), esc(o['stderr'][-200:]))
    # rebuild the plan from the steps
    plan = []
    first = True
    for st in scn['steps']:
        if first and st['cmd'] == 'list':
            first = False
            if scn.get('initial_bag') is not None:
                plan.append(('init', [tuple(x) for x in scn['initial_bag']]))
            else:
                plan.append(('init', [tuple(x) for x in parse_records(res['steps'][0]['stdout'])]))
            continue
        first = False
        if st['cmd'] == 'put':
            n = st['now']
            plan.append(('put', st['argv'][-1], datetime.datetime(*n[:6])))
        elif st['cmd'] == 'restore':
            plan.append(('restore', st['argv'][0], (st.get('stdin') or '').rstrip('\n'), bool((st.get('plan') or {}).get('faults'))))
        elif st['cmd'] == 'rm':
            plan.append(('rm', st['argv'][0]) if not (st.get('plan') or {}).get('faults') else ('rm-refused', st['argv'][0]))
        elif st['cmd'] == 'empty':
            d = [a for a in st['argv'] if a.isdigit()]
            fresh = None
            for vv in (st.get('plan') or {}).values():
                if isinstance(vv, dict) and vv.get('ops') and vv['ops'][-1][0] == 'write' and '/files/' in vv['ops'][-1][1]:
                    fname = os.path.basename(vv['ops'][-1][1])
                    fresh = (fname, st['env']['TRASH_DATE'].replace('T', ' '), '/was/' + fname)
            nowv = datetime.datetime(*st['now'][:6]) if st.get('now') else datetime.datetime.strptime(st['env']['TRASH_DATE'], FMT)
            plan.append(('empty', int(d[0]) if d else None, nowv, fresh, '-i' in st['argv'] and (st.get('stdin') or '').strip() not in ('y', 'Y')))
        else:
            plan.append(('list',))
    judge(run, scn, plan, res)
