"""C07 - trash-put picks the trash dir the spec prescribes, on the file's own volume."""
import os

import engine
import putlib
import sandbox
import scen
from common import esc, tok_l, model_batch

RULE = ("function level: home_trash_dir_path_from_env of /repo vs the Coq function on the full table of XDG_DATA_HOME / HOME shapes; trace level: "
        "exact correspondence of every run with the Coq model; state level: over generated mount layouts (home on / or its own volume, 1-3 "
        "volumes, nested mounts), 7 states of $topdir/.Trash x 4 of $topdir/.Trash-$uid, files reached through symlinks that cross volumes, "
        "trash directories that are symlinks onto another volume, XDG_DATA_HOME set/unset/empty, HOME unset, several uids, --trash-dir, "
        "--home-fallback with/without TRASH_ENABLE_HOME_FALLBACK: the directory that gained the entry must be the one an independent "
        "reading of the spec prescribes (written in this file: volume = longest mount prefix of realpath(parent); home trash only on its own "
        "volume; .Trash/$uid only if .Trash is a sticky real directory; else .Trash-$uid; fallback only with both switches), created "
        "directories must have mode 0700, and without the fallback the move must be a single rename (no copy). "
        "distinct = (layout class, .Trash state, .Trash-uid state, env shape, options, chosen kind).")
ASSUMPTIONS = ["the virtual mount table of the shim answers os.path.ismount and makes rename across virtual volumes fail with EXDEV"]


def gen(rng, n):
    scns, metas = [], []
    for i in range(n):
        lay = scen.Layout(rng, uid=rng.choice([0, 501, 1000, 65534]))
        vols = lay.all_vols
        v = rng.choice(vols)
        sub = rng.choice(['', 'd', 'd/e'])
        parent = scen.Layout.j(v, 'data' + ('/' + sub if sub else ''))
        name = rng.choice(['f', 'a b', 'é', 'x.trashinfo'])
        nodes = scen.canary() + [['d', parent, 0o755], ['f', parent + '/' + name, 'content']]
        arg = parent + '/' + name
        via = None
        r = rng.random()
        if r < 0.2:
            # reached through a symlink located on another volume
            other = rng.choice(vols)
            lk = scen.Layout.j(other, 'lnk')
            if sub and rng.random() < 0.5:
                # the link stands for an ANCESTOR: the direct parent of the file is a real directory below it
                nodes.append(['l', lk, scen.Layout.j(v, 'data')])
                arg = lk + '/' + sub + '/' + name
            else:
                nodes.append(['l', lk, parent])
                arg = lk + '/' + name
            via = other
        env_extra = {}
        hf = rng.random() < 0.3
        argv = []
        if hf:
            argv.append('--home-fallback')
            if rng.random() < 0.6:
                env_extra['TRASH_ENABLE_HOME_FALLBACK'] = rng.choice(['1', '1', '0', 'yes'])
        if rng.random() < 0.15:
            # half a skeleton: the trash directory has its info/ but no files/ (somebody removed it): whatever is missing is created
            nodes.append(['d', lay.home_trash + '/info', 0o700])
            for vv in lay.all_vols:
                if lay.top[vv][1] == 'dir':
                    nodes.append(['d', lay.top2(vv) + '/info', 0o700])
        if not hf and rng.random() < 0.2:
            env_extra['TRASH_ENABLE_HOME_FALLBACK'] = '1'       # the variable alone enables nothing: the option is needed as well
        if lay.top[v][0] == 'sticky' and rng.random() < 0.25:
            # the user's own directory inside a proper $topdir/.Trash is a symbolic link to a directory of the same volume (the
            # administrator keeps the users' trashes elsewhere on the disk): the checks are about $topdir/.Trash, the entry goes there
            nodes += [['d', scen.Layout.j(v, 'trashes/u%d' % lay.uid), 0o700], ['l', lay.top1(v), scen.Layout.j(v, 'trashes/u%d' % lay.uid)]]
        td_opt = None
        if rng.random() < 0.12:
            td_opt = rng.choice([scen.Layout.j(v, 'mytrash'), lay.home + '/mytrash'])
            argv += ['--trash-dir', td_opt]
        # the home trash itself a symlink onto another volume
        symhome = False
        if rng.random() < 0.12 and lay.vols:
            tgt = lay.vols[0] + '/hometrash'
            nodes += [['d', tgt, 0o700], ['d', os.path.dirname(lay.home_trash), 0o755], ['l', lay.home_trash, tgt]]
            symhome = True
        nohome = rng.random() < 0.05
        # a first argument on ANOTHER volume (the enclosing one when the file's volume is nested inside it): whatever trash-put learnt
        # while handling it must not leak into the decision for the next argument; and a pre-existing $topdir/.Trash/$uid
        pre = None
        outer = [m for m in vols if m != v and m != '/' and v.startswith(m + '/')]
        if not td_opt and (outer and rng.random() < 0.6 or rng.random() < 0.12):
            pv = outer[0] if outer else rng.choice(vols)
            pre = scen.Layout.j(pv, 'data/pre0')
            nodes += [['d', scen.Layout.j(pv, 'data'), 0o755], ['f', pre, 'first argument']]
        if v != '/' and not td_opt and rng.random() < 0.08:
            # another file system mounted exactly ON a candidate trash directory: it is then not on the file's volume
            cands_mp = ([lay.top2(v)] if lay.top[v][1] != 'file' else []) + ([lay.top1(v)] if lay.top[v][0] == 'sticky' else [])
            cands_mp = [c for c in cands_mp if not any(nd[0] == 'l' and nd[1] == c for nd in nodes)]      # (not where a link was just put)
            if cands_mp:
                mp = rng.choice(cands_mp)
                nodes.append(['d', mp, 0o700])
                lay.mounts.append(mp)
        if lay.top1_can_hold(v) and rng.random() < 0.3:
            t1 = lay.top1(v)
            nodes += [['d', t1, 0o700], ['d', t1 + '/files', 0o700], ['d', t1 + '/info', 0o700]]
        step = {'cmd': 'put', 'argv': argv + ['--'] + ([pre] if pre else []) + [arg], 'now': [2024, 5, 6, 7, 8, 9, 0], 'env': dict(env_extra)}
        scn = lay.scenario([step], cwd='/', extra=nodes)
        if nohome:
            scn['env'].pop('HOME', None)
            scn['env'].pop('XDG_DATA_HOME', None)
        scns.append(scn)
        metas.append({'file': parent + '/' + name, 'parent': parent, 'vol': v, 'uid': lay.uid, 'hf': hf, 'td_opt': td_opt, 'nohome': nohome,
                      'symhome': symhome, 'top': lay.top[v], 'home_trash': lay.home_trash, 'mounts': ['/'] + lay.mounts, 'via': via,
                      'enable': env_extra.get('TRASH_ENABLE_HOME_FALLBACK'), 'pre': pre})
    return scns, metas


def mount_of(path, mounts):
    best = '/'
    for m in mounts:
        if engine.under(path, m) and len(m) > len(best):
            best = m
    return best


def realdir(snap, path):
    """physical location of a directory path that may not exist yet (symlinks in any component followed)"""
    return engine.physical(snap, path + '/x')[:-2] if path != '/' else '/'


def node_follow(snap, path, depth=0):
    """the node a path resolves to (final symlink followed), or None"""
    p = engine.physical(snap, path)
    v = snap.get(p)
    if v is not None and v[0] == 'l' and depth < 10:
        t = v[2]
        base = t if t.startswith('/') else os.path.dirname(p) + '/' + t
        return node_follow(snap, os.path.normpath(base), depth + 1)
    return (p, v)


def spec_choice(before, meta, env):
    """the trash directory the property prescribes (independent reading), or None when trashing must fail"""
    mounts = meta['mounts']
    fvol = mount_of(realdir(before, meta['parent']), mounts)
    uid = meta['uid']

    def usable_dir(td):
        # can td, td/files, td/info be (or be made) directories?
        p = realdir(before, td)
        # every existing prefix must be a directory
        cur = ''
        for c in [c for c in p.split('/') if c]:
            cur += '/' + c
            v = before.get(cur)
            if v is None:
                return True
            if v[0] != 'd':
                return False
        for sub in ('files', 'info'):
            q, v = node_follow(before, p + '/' + sub)
            if v is not None and v[0] != 'd':
                return False
        return True

    def same_volume(td):
        return mount_of(realdir(before, os.path.normpath(td)), mounts) == fvol

    cands = []
    if meta['td_opt']:
        cands.append((meta['td_opt'], 'user', 'same'))
    else:
        home = None
        if env.get('XDG_DATA_HOME'):
            home = env['XDG_DATA_HOME'] + '/Trash'
        elif 'HOME' in env:
            home = env['HOME'] + '/.local/share/Trash'
        if home:
            cands.append((home, 'home', 'same'))
        top = fvol
        t1 = scen.Layout.j(top, '.Trash/%d' % uid)
        t2 = scen.Layout.j(top, '.Trash-%d' % uid)
        cands.append((t1, 'top1', 'same'))
        cands.append((t2, 'top2', 'same'))
        if meta['hf'] and home:
            cands.append((home, 'home-fallback', 'fallback'))
    for td, kind, gate in cands:
        if kind == 'top1':
            par = os.path.dirname(td)
            v = before.get(par)
            if v is None or v[0] != 'd' or not (v[1] & 0o1000):
                continue                      # absent, not a directory, a symlink, or not sticky
        if gate == 'same':
            if not same_volume(td):
                continue
        else:
            if meta['enable'] != '1':
                continue
        if not usable_dir(td):
            continue
        return td, kind
    return None, None


def judge(run, scn, meta, res, section='state'):
    before, o = res['before'], res['steps'][0]
    after = o['after']
    env = dict(scn['env'])
    env.update(scn['steps'][0].get('env') or {})
    case = {'scenario': scn, 'meta': {k: v for k, v in meta.items() if k != 'mounts'}, 'exit': o['exit'], 'stderr': o['stderr'][-600:]}
    run.count(section)
    want, kind = spec_choice(before, meta, env)
    pairs, strays, orphans = putlib.new_trash_items(before, after)
    npre = 0
    if meta.get('pre'):
        # the first argument is judged by the same table, then set aside
        wpre, kpre = spec_choice(before, dict(meta, parent=os.path.dirname(meta['pre'])), env)
        ppre = [(td, n) for td, n in pairs if n.startswith('pre0')]
        gpre = realdir(after, ppre[0][0]) if len(ppre) == 1 else None
        if gpre != (realdir(before, wpre) if wpre else None):
            run.fail('oracle', 'the FIRST argument did not go to the trash directory the spec prescribes',
                     dict(case, chosen=gpre, prescribed=wpre, prescribed_kind=kpre), key='wrong-trash-dir-first:%s' % kpre, section=section)
        pairs = [(td, n) for td, n in pairs if not n.startswith('pre0')]
        npre = 1 if (gpre and kpre != 'home-fallback') else 0
        if gpre and kpre == 'home-fallback':
            npre = None
    got = realdir(after, pairs[0][0]) if len(pairs) == 1 else None
    wantp = realdir(before, want) if want else None
    if strays or orphans or len(pairs) > 1:
        run.fail('oracle', 'trash-put left a stray info, an orphan payload or several entries', dict(case, pairs=pairs, strays=strays, orphans=orphans),
                 key='not-one-entry', section=section)
        return
    if got != wantp:
        run.fail('oracle', 'the entry did not go to the trash directory the spec prescribes',
                 dict(case, chosen=got, prescribed=wantp, prescribed_kind=kind), key='wrong-trash-dir:%s' % kind, section=section)
        return
    if got:
        # created directories are private
        for p, v in after.items():
            if p not in before and v[0] == 'd' and (engine.under(p, got) or engine.under(got, p)) and p != '/':
                if engine.under(p, got) and (v[1] & 0o1777) != 0o700:      # a setgid parent passes its setgid bit on (kernel), the permission bits are the program's
                    run.fail('oracle', 'a trash directory was created with a mode other than 0700', dict(case, path=p, mode=oct(v[1])),
                             key='not-private', section=section)
        # without the fallback the move is one rename
        if kind != 'home-fallback' and npre is not None:
            moves = [m for m in o.get('muts', []) if m in ('sendfile', 'copy_file_range', 'symlink')]
            if moves or o.get('muts', []).count('rename') != 1 + npre:
                run.fail('oracle', 'trashing was not a single rename (a cross-device copy happened without the home fallback)',
                         dict(case, mutations=o.get('muts')), key='silent-copy', section=section)
    if not meta.get('pre') and (o['exit'] == 0) != (got is not None):
        run.fail('oracle', 'exit status does not match the outcome', case, key='exit-mismatch', section=section)
    run.nontriv((meta['vol'] == '/', tuple(meta['top']), meta['hf'], meta['enable'], bool(meta['td_opt']), meta['symhome'], bool(meta['via']), kind, bool(meta.get('pre')),
                 'XDG_DATA_HOME' in env and env['XDG_DATA_HOME'] == '', meta['nohome']))


def env_table(run):
    import sys
    from common import REPO
    from fnlevel import compare
    if REPO not in sys.path:
        sys.path.insert(0, REPO)
    from trashcli.lib.trash_dirs import home_trash_dir_path_from_env
    cases = []
    for xdg in (None, '', '/x', '/x/', 'rel'):
        for home in (None, '', '/h', '/h/'):
            env = {}
            if xdg is not None:
                env['XDG_DATA_HOME'] = xdg
            if home is not None:
                env['HOME'] = home
            items = []
            for k, v in env.items():
                items += [k, v]
            cases.append((items,))

    def py(items):
        env = dict(zip(items[0::2], items[1::2]))
        return tok_l(home_trash_dir_path_from_env(env))
    compare(run, 'home_trash_dir_path_from_env', 'home_trash_dir_path_from_env', py, cases, (tok_l,), lambda a, r: ('env', r), exhaustive=True)


def two_volumes(run, n):
    """one invocation, files sitting directly in the top directories of sibling volumes: each goes to its own volume's trash dir"""
    rng = run.rng
    scns = []
    for i in range(n):
        uid = rng.choice([0, 1000])
        tree = [['d', '/home/u', 0o755], ['d', '/media/a', 0o755], ['d', '/media/b', 0o755], ['f', '/media/a/one', '1'], ['f', '/media/b/two', '2'],
                ['f', '/media/a/three', '3'], ['f', '/home/u/four', '4']]
        args = ['/media/a/one', '/media/b/two', '/media/a/three', '/home/u/four']
        rng.shuffle(args)
        args = args[:rng.randint(2, 4)]
        scns.append({'tree': tree, 'mounts': ['/media/a', '/media/b'], 'cwd': rng.choice(['/', '/media', '/media/a']), 'uid': uid,
                     'env': {'HOME': '/home/u', 'TRASH_VOLUMES': '/:/media/a:/media/b'},
                     'steps': [{'cmd': 'put', 'argv': ['--'] + args, 'now': [2024, 5, 6, 7, 8, 9, 0]}]})
    out = engine.run_all(run, 'two-volumes', scns)
    for scn, res in out:
        judge_two_volumes(run, scn, res)


def judge_two_volumes(run, scn, res, section='two-volumes'):
    o = res['steps'][0]
    after = o['after']
    run.count(section + '-state')
    uid = scn['uid']
    for a in scn['steps'][0]['argv'][1:]:
        vol = '/media/a' if a.startswith('/media/a') else '/media/b' if a.startswith('/media/b') else '/'
        td = (vol + '/.Trash-%d' % uid) if vol != '/' else '/home/u/.local/share/Trash'
        name = os.path.basename(a)
        if after.get(td + '/files/' + name) is None or a in after:
            run.fail('oracle', 'a file in the top directory of a volume did not go to the trash directory of its own volume',
                     {'scenario': scn, 'arg': a, 'expected_dir': td, 'exit': o['exit'], 'stderr': o['stderr'][-500:]},
                     key='wrong-volume-multi-arg', section=section)
    if [m for m in o.get('muts', []) if m in ('sendfile', 'copy_file_range')]:
        run.fail('oracle', 'a cross-device copy happened without the home fallback', {'scenario': scn, 'mutations': o.get('muts')},
                 key='silent-copy', section=section)
    run.nontriv(('two-vol', tuple(scn['steps'][0]['argv'][1:]), scn['cwd']))


def run(run, thorough):
    try:
        env_table(run)
    except Exception as e:
        run.notes.append('env table skipped: %r' % e)
    two_volumes(run, 40 if not thorough else 400)
    scns, metas = gen(run.rng, 700 if not thorough else 10000)
    out = engine.run_all(run, 'put', scns)
    by_id = {id(s): m for s, m in zip(scns, metas)}
    for scn, res in out:
        judge(run, scn, by_id[id(scn)], res)
    private_at_every_instant(run, [(scn, res) for scn, res in out][:60 if not thorough else 600])
    if out:
        run.sample({'level': 'state', 'argv': out[0][0]['steps'][0]['argv'], 'mounts': out[0][0]['mounts'], 'env': out[0][0]['env']})


def new_dirs_not_private(before, snap):
    bad = []
    for p, v in snap.items():
        if p not in before and v[0] == 'd' and (v[1] & 0o777) != 0o700:
            comps = p.split('/')
            if any(c == 'Trash' or c == '.Trash' or c.startswith('.Trash-') for c in comps) or comps[-1] in ('mytrash',):
                bad.append((p, oct(v[1])))
    return bad


def private_at_every_instant(run, outs, section='private-at-creation'):
    """the directories trash-put creates are private from the moment they exist: the run is killed right after every directory creation
    (and a chmod it may issue afterwards is refused): no trash directory with other permission bits than 0700 is ever left behind"""
    import copy
    scns, infos = [], []
    for scn, res in outs:
        muts = res['steps'][0].get('muts') or []
        for j, m in enumerate(muts):
            if m == 'mkdir':
                s = copy.deepcopy(scn)
                s['steps'][0]['plan'] = {'crash': j + 2}
                scns.append(s)
                infos.append(('killed after mkdir', j + 1))
            elif m == 'chmod':
                s = copy.deepcopy(scn)
                s['steps'][0]['plan'] = {'sysfault': [j + 1, 1]}
                scns.append(s)
                infos.append(('chmod refused', j + 1))
        if len(scns) > 400:
            break
    res = sandbox.execute_many(scns) if scns else []
    for s, inf, r in zip(scns, infos, res):
        if not r.get('steps'):
            continue
        run.count(section)
        bad = new_dirs_not_private(r['before'], r['steps'][0]['after'])
        if bad:
            run.fail('oracle', 'a trash directory created by trash-put exists with permission bits other than 0700 (%s at system call %d)' % inf,
                     {'scenario': s, 'directories': bad[:6]}, key='not-private-at-creation', section=section)


def replay(run, payload):
    case = payload.get('case') or {}
    scn = case.get('scenario')
    if not scn:
        return
    res = sandbox.execute(scn)
    o = res['steps'][0]
    print('trash-put', scn['steps'][0]['argv'], 'exit', o['exit'], esc(o['stderr'][:600]))
    meta = case.get('meta')
    pl = scn['steps'][0].get('plan') or {}
    if not meta and (pl.get('crash') or pl.get('sysfault')):
        bad = new_dirs_not_private(res['before'], o['after'])
        if bad:
            run.fail('oracle', 'a trash directory created by trash-put exists with permission bits other than 0700', {'scenario': scn, 'directories': bad[:6]},
                     key='not-private-at-creation', section='replay')
        return
    if meta:
        meta = dict(meta, mounts=['/'] + list(scn['mounts']))
        judge(run, scn, meta, res)
    elif sorted(scn.get('mounts') or []) == ['/media/a', '/media/b']:
        judge_two_volumes(run, scn, res, 'replay')
