"""Regenerates MANIFEST.json from the table below (kept valid at all times)."""
import json, os, sys
V = os.path.dirname(os.path.dirname(os.path.abspath(__file__)))
props = [json.loads(l) for l in open(os.path.join(V, 'properties.jsonl'))]
CLAIMS = json.load(open(os.path.join(V, 'harness', 'claims.json')))
TB = ("Trusted: Coq 8.16.1 kernel (vm_compute in Examples/finite sweeps; no native_compute); no axioms (every theorem prints "
      "'Closed under the global context'); extraction with ExtrOcamlBasic only + driver/main.ml; the correspondence harness "
      "(shim, chroot sandbox, generators) which is testing; modelled not verified: trash-cli itself (hand-written model), "
      "CPython 3.12 library functions, Linux VFS. Theorems over 'every run' assume well-typed answers (Prog.valid_res); theorems 'on the "
      "tree of files' assume the file-system relation World.effect (paths are strings - no symlink aliasing; OpenExcl/Remove/Move atomic "
      "on failure; trees stay trees), whose executable fragment is validated against before/after snapshots of every recorded run "
      "(world conformance tie). CoqHammer's sauto is used as a tactic in Proofs/ConcProofs.v only (terms re-checked by the kernel). ")
checks = []
na = []
for p in props:
    pid = p['id']
    c = CLAIMS.get(pid)
    if not c or not c.get('claimed'):
        na.append({'property_id': pid, 'reason': (c or {}).get('reason', 'check under construction in this session; not a statement that the technique cannot apply')})
        continue
    checks.append({
        'property_id': pid,
        'quick_cmd': './check %s --tier quick' % pid,
        'thorough_cmd': './check %s --tier thorough' % pid,
        'evidence_file': 'evidence/%s.json' % pid,
        'replay_cmd_template': './check %s --replay {path}' % pid,
        'engine': 'coq-model+correspondence',
        'level_claimed': {'category': 'proof', 'text': c['text'], 'design_ref': c.get('design_ref', 'DESIGN.md section 8, ' + pid)},
        'level_note': TB + c.get('note', ''),
        'technique': c.get('technique', 'machine-checked proof in Coq of a hand-written model + differential correspondence check against /repo'),
    })
m = {
    'version': 1,
    'setup_cmd': 'make -C /verif setup',
    'hooks': {
        'guard': 'TRASHCLI_VERIF',
        'enable': 'none needed: instrumentation is external (harness/sandbox.py wraps os/shutil/builtins before running the real main() of each command); no source hook exists in /repo',
        'baseline_off_cmd': 'cd /repo && /venv/bin/python -m pytest -ra -q -p no:cacheprovider --timeout=900 --continue-on-collection-errors',
        'source_commits': [],
        'add_only': True,
    },
    'engines': [
        {'name': 'coq-model', 'path': 'coq/theories', 'serves_properties': [c['property_id'] for c in checks],
         'kind_free_text': 'Coq 8.16.1 development: executable model of trash-cli + theorems (Props/Cxx.v), built by coq_makefile'},
        {'name': 'modelrun', 'path': 'driver', 'serves_properties': [c['property_id'] for c in checks],
         'kind_free_text': 'OCaml extraction of the model (ExtrOcamlBasic) + line-oriented driver'},
        {'name': 'harness', 'path': 'harness', 'serves_properties': [c['property_id'] for c in checks],
         'kind_free_text': 'Python: chroot sandbox + shim around the real commands, generators, oracles, evidence'},
    ],
    'checks': checks,
    'notes': 'See DESIGN.md. Every check = P (Coq theorems compile, axiom-free) + T (model/implementation correspondence on this run) + O (direct oracle on the implementation).',
    'not_applicable': na,
}
json.dump(m, open(os.path.join(V, 'MANIFEST.json'), 'w'), indent=1)
print('claimed', len(checks), 'unclaimed', len(na))
