"""C01 - trash-put conserves data: each argument ends fully trashed or untouched."""
import copy
import itertools
import os

import engine
import putlib
import sandbox
import scen
from common import esc

RULE = ("trace level: every generated trash-put run must issue exactly the operations of the Coq model (and print its diagnostics); the "
        "Coq put-discipline and untouched-arguments monitors must accept the recorded/reconstructed traces; state level (the property's "
        "own wording on recursive snapshots: type, mode, content, link target, mtime): each argument's subtree is either identical under "
        "files/N of exactly one trash directory next to a complete N.trashinfo and gone from its origin, or identical at its origin with no "
        "new info/payload anywhere; nothing else changes. Generated: entry kinds (file, empty file, directory tree with inner links, "
        "symlink to file/dir/nothing), spellings (absolute, relative, ./x, d/./x, d//x, 0-3 trailing slashes, '.', '..', './', '../', "
        "'d/.', a mount point, an undecodable name), options (-f, -i with replies, -v, --home-fallback with/without the env switch), "
        "layouts (home on / or own volume, 1-3 volumes, nested, 7 states of .Trash x 4 of .Trash-uid). An exhaustive core enumerates "
        "every spelling of up to 3 components over {., .., d, x, link} with 0-2 trailing slashes on a fixed tree. "
        "distinct = (kinds, outcome per argument, mode, exit, layout class).")
ASSUMPTIONS = ["arguments are pairwise unrelated (none an ancestor, alias or duplicate of another) when judged individually",
               "the empty skeleton <td>, <td>/files, <td>/info that a failed attempt created on demand is not 'something new for the argument'"]


RULE += ' Directed tables since round 8: an argument inside a later argument (both trashed in command-line order, exit 0) and a trash directory inside the argument (--trash-dir below it, ~/.local, ~: reported or trashed elsewhere, never an info file without payload).'


def monitors(run, scn, res, jobs_put, jobs_skip):
    st, o = scn['steps'][0], res['steps'][0]
    jobs_put.append(('put', 'x', o, {'scenario': scn}))
    if len([a for a in st['argv'] if not a.startswith('-')]) == 1:
        jobs_skip.append(('skip', 'x', o, {'scenario': scn}))


def exhaustive_core(run):
    """every spelling over a fixed small tree"""
    import itertools
    tree = [['d', '/home/u', 0o755], ['d', '/home/u/d', 0o755], ['f', '/home/u/d/x', 'dx'], ['f', '/home/u/x', 'x'],
            ['d', '/home/u/d/d', 0o755], ['f', '/home/u/d/d/x', 'ddx'], ['l', '/home/u/link', 'd'], ['l', '/home/u/d/link', '/home/u/x'],
            ['d', '/canary', 0o755], ['f', '/canary/file', 'c'], ['f', '/home/u/~', 'tilde'], ['d', '/home/u/d/~', 0o555], ['f', '/home/u/d/~/x', 'dtx']]
    comps = ['.', '..', 'd', 'x', 'link', '~']             # '~' is a name like any other: the shell expands it, trash-put must not
    scns, metas = [], []
    for n in (1, 2, 3):
        for t in itertools.product(comps, repeat=n):
            for sl in ('', '/', '//'):
                arg = '/'.join(t) + sl
                # 'link/..' designates the parent of the link's target: the lexical-dotdot known finding; kept out of the core
                if any(t[i] == 'link' and t[i + 1] == '..' for i in range(len(t) - 1)):
                    continue
                scn = {'tree': tree, 'mounts': [], 'cwd': '/home/u', 'uid': 0, 'env': {'HOME': '/home/u', 'TRASH_VOLUMES': '/'},
                       'steps': [{'cmd': 'put', 'argv': ['--', arg], 'now': [2024, 5, 6, 7, 8, 9, 0]}]}
                scns.append(scn)
                metas.append({'arg': arg})
    out = engine.run_all(run, 'core', scns)
    for scn, res in out:
        arg = scn['steps'][0]['argv'][-1]
        before, o = res['before'], res['steps'][0]
        after = o['after']
        run.count('core-state')
        pairs, strays, orphans = putlib.new_trash_items(before, after)
        gone = [p for p in before if p not in after]
        case = {'scenario': scn, 'exit': o['exit'], 'stderr': o['stderr'][-500:]}
        if orphans or strays:
            run.fail('oracle', 'trash-put left a payload without info or an info without payload', dict(case, orphans=orphans, strays=strays),
                     key='orphan-or-stray', section='core')
        if len(pairs) > 1:
            run.fail('oracle', 'one argument produced several trash entries', dict(case, pairs=pairs), key='several-entries', section='core')
        if o['exit'] != 0:
            ch = engine.changed_paths(before, after)
            ch = [p for p in ch if not p.startswith('/home/u/.local')]
            if ch or pairs:
                run.fail('oracle', 'trash-put reported failure for an argument it had moved, copied-and-deleted or emptied',
                         dict(case, changed=ch[:8], pairs=pairs), key='failure-after-damage', section='core')
        else:
            if len(pairs) != 1:
                run.fail('oracle', 'trash-put exited 0 without a complete new trash entry', dict(case, pairs=pairs), key='success-without-entry', section='core')
            else:
                td, name = pairs[0]
                pay = sandbox.subtree(after, td + '/files/' + name)
                # what left the origin must be exactly the payload
                roots = sorted(set(g for g in gone if not any(g != h and g.startswith(h + '/') for h in gone)))
                if len(roots) != 1 or putlib.loose(sandbox.subtree(before, roots[0])) != putlib.loose(pay):
                    run.fail('oracle', 'what disappeared from its origin is not what arrived in the trash',
                             dict(case, gone=roots[:5], payload_nodes=len(pay)), key='content-mismatch', section='core')
        run.nontriv(('core', arg.count('/'), o['exit'], len(pairs)))
    run.exhaustive.append('core (all spellings of <=3 components over {., .., d, x, link} x 0-2 trailing slashes, minus link/..)')


def run(run, thorough):
    exhaustive_core(run)
    n = 500 if not thorough else 8000
    scns, metas = [], []
    for i in range(n):
        # sometimes a home directory whose name is not a valid regular expression / format string: the message that abbreviates the trash
        # directory to ~/... is built AFTER the entry has been moved
        lay = scen.Layout(run.rng, home_name=run.rng.choice([None] * 6 + ['/home/u(x', '/home/team[a', '/home/u)', '/home/u%s']))
        s, m = putlib.gen_put(run.rng, layout=lay)
        scns.append(s)
        metas.append(m)
    out = engine.run_all(run, 'put', scns)
    by_id = {id(s): m for s, m in zip(scns, metas)}
    jobs_put, jobs_skip = [], []
    for scn, res in out:
        meta = by_id[id(scn)]
        run.count('state')
        outs = putlib.conservation(run, scn, meta, res, 'state')
        o = res['steps'][0]
        if o['exc'] is not None:
            # a traceback is a report of failure for everything on the command line - including arguments already moved, and those never handled
            run.fail('oracle', 'trash-put ended with an uncaught exception (exit %s): failure is reported although arguments were trashed, '
                     'or arguments were never handled' % o['exit'],
                     {'scenario': scn, 'exc': o['exc'], 'exit': o['exit'], 'outcomes': outs, 'stderr': o['stderr'][-500:]}, key='uncaught-exception', section='state')
        run.nontriv(('put', tuple(sorted(a['kind'] for a in meta['args'])), tuple(outs), meta['mode'], o['exit']))
        monitors(run, scn, res, jobs_put, jobs_skip)
    engine.run_monitors(run, 'put-monitor', jobs_put, 'the put-discipline monitor (Coq) rejects the implementation trace', 'put-discipline', silent=True)
    engine.run_monitors(run, 'skip-monitor', jobs_skip, 'the untouched-arguments monitor (Coq, C01) rejects the implementation trace: a mutation for '
                        'a dot entry, a nonexistent path or a declined argument', 'mutation-for-skipped-argument')
    # the trash directory lies INSIDE the directory being trashed (trash-put ~/.local, --trash-dir below the argument): shutil.move refuses to
    # move a directory into itself - after the info file was written.  Reported or trashed elsewhere, no info file may describe nothing
    nest = []
    for td_exists, spelled, extra in itertools.product((False, True), ('/home/u/w/dir', 'w/dir', 'w/dir/'), ([], ['-v'])):
        tree = [['d', '/home/u', 0o755], ['d', '/home/u/w/dir', 0o755], ['f', '/home/u/w/dir/keep', 'keep me'], ['d', '/home/u/w/dir/sub', 0o755]]
        if td_exists:
            tree += [['d', '/home/u/w/dir/td/info', 0o700], ['d', '/home/u/w/dir/td/files', 0o700]]
        nest.append({'tree': tree, 'mounts': [], 'cwd': '/home/u', 'uid': 0, 'env': {'HOME': '/home/u', 'TRASH_VOLUMES': '/'},
                     'judge_meta': {'family': 'selfnest', 'arg': '/home/u/w/dir'},
                     'steps': [{'cmd': 'put', 'argv': extra + ['--trash-dir', '/home/u/w/dir/td', '--', spelled], 'now': [2024, 5, 6, 7, 8, 9, 0]}]})
    for homearg in ('/home/u/.local', '/home/u/.local/share', '/home/u'):
        nest.append({'tree': [['d', '/home/u', 0o755], ['d', '/home/u/.local/share', 0o755], ['f', '/home/u/.local/share/keep', 'keep me'], ['d', '/.Trash-0', 0o700]],
                     'mounts': [], 'cwd': '/', 'uid': 0, 'env': {'HOME': '/home/u', 'TRASH_VOLUMES': '/'},
                     'judge_meta': {'family': 'selfnest', 'arg': homearg},
                     'steps': [{'cmd': 'put', 'argv': ['--', homearg], 'now': [2024, 5, 6, 7, 8, 9, 0]}]})
    for scn, res in zip(nest, sandbox.execute_many(nest)):
        if res.get('harness_error') or not res.get('steps'):
            run.fail('harness', 'sandbox failure', {'error': res.get('harness_error'), 'scenario': scn})
            continue
        judge_selfnest(run, scn, res)
    # one argument lies inside a later one (trash-put dir/a ./dir/): arguments are handled in command-line order, so the inner one gets
    # its own entry first and the outer one is trashed without it - both succeed
    over = []
    for inner, outer in (('dir/a', './dir/'), ('dir/a', 'dir//'), ('/home/u/dir/a', '/home/u/./dir'), ('dir/sub', './dir/'), ('dir/sub/x', './dir/sub/'),
                         ('dir/a', '../u/dir')):
        over.append({'tree': [['d', '/home/u', 0o755], ['d', '/home/u/dir', 0o755], ['f', '/home/u/dir/a', 'a'], ['f', '/home/u/dir/b', 'b'],
                              ['d', '/home/u/dir/sub', 0o755], ['f', '/home/u/dir/sub/x', 'x']],
                     'mounts': [], 'cwd': '/home/u', 'uid': 0, 'env': {'HOME': '/home/u', 'TRASH_VOLUMES': '/'},
                     'judge_meta': {'family': 'overlap', 'inner': os.path.normpath(os.path.join('/home/u', inner)),
                                    'outer': os.path.normpath(os.path.join('/home/u', outer))},
                     'steps': [{'cmd': 'put', 'argv': ['--', inner, outer], 'now': [2024, 5, 6, 7, 8, 9, 0]}]})
    for scn, res in zip(over, sandbox.execute_many(over)):
        if res.get('harness_error') or not res.get('steps'):
            run.fail('harness', 'sandbox failure', {'error': res.get('harness_error'), 'scenario': scn})
            continue
        judge_overlap(run, scn, res)
    # an argument is a NAME: '@todo' designates the entry called '@todo', whatever a file 'todo' next to it may list
    atf = []
    for argv, extra in itertools.product((['--', '@todo'], ['@todo'], ['-v', '--', '@todo', 'other']), (True, False)):
        tree = [['d', '/home/u', 0o755], ['d', '/home/u/w', 0o755], ['f', '/home/u/w/@todo', 'the argument'], ['f', '/home/u/w/victim', 'never named'],
                ['f', '/home/u/w/other', 'other']]
        if extra:
            tree.append(['f', '/home/u/w/todo', 'victim\n'])
        atf.append({'tree': tree, 'mounts': [], 'cwd': '/home/u/w', 'uid': 0, 'env': {'HOME': '/home/u', 'TRASH_VOLUMES': '/'},
                    'judge_meta': {'family': 'atfile', 'named': ['/home/u/w/' + a for a in argv if not a.startswith('-')],
                                   'bystanders': ['/home/u/w/victim', '/home/u/w/todo'] + ([] if 'other' in argv else ['/home/u/w/other'])},
                    'steps': [{'cmd': 'put', 'argv': argv, 'now': [2024, 5, 6, 7, 8, 9, 0]}]})
    for scn, res in zip(atf, sandbox.execute_many(atf)):
        if res.get('harness_error') or not res.get('steps'):
            run.fail('harness', 'sandbox failure', {'error': res.get('harness_error'), 'scenario': scn})
            continue
        judge_atfile(run, scn, res)
    # the known finding: '..' after a symlinked directory
    known = {'tree': [['d', '/home/u', 0o755], ['d', '/other/dir', 0o755], ['f', '/other/x', 'theirs'], ['f', '/home/u/x', 'mine'],
                      ['l', '/home/u/link', '/other/dir']], 'mounts': [], 'cwd': '/home/u', 'uid': 0,
             'env': {'HOME': '/home/u', 'TRASH_VOLUMES': '/'},
             'steps': [{'cmd': 'put', 'argv': ['--', 'link/../x'], 'now': [2024, 5, 6, 7, 8, 9, 0]}]}
    r = sandbox.execute(known)
    run.count('known-finding-probe')
    a = r['steps'][0]['after']
    if '/other/x' in a and '/home/u/x' not in a:
        run.fail('oracle', "trash-put link/../x trashed ./x although the argument designates the x next to the link's target",
                 {'scenario': known}, key='lexical-dotdot-after-symlink', section='known-finding-probe')
    if out:
        run.sample({'level': 'state', 'argv': [esc(a) for a in out[0][0]['steps'][0]['argv']], 'cwd': out[0][0]['cwd']})


def judge_selfnest(run, scn, res, section='trash-dir-inside-argument'):
    run.count(section)
    o = res['steps'][0]
    before, after = res['before'], o['after']
    arg = scn['judge_meta']['arg']
    case = {'scenario': scn, 'exit': o['exit'], 'exc': o['exc'], 'stderr': o['stderr'][-400:]}
    # an info file, wherever it lies now, whose payload is not next to it
    stray = [p for p in after if p.endswith('.trashinfo') and os.path.basename(os.path.dirname(p)) == 'info' and after[p][0] == 'f'
             and os.path.dirname(os.path.dirname(p)) + '/files/' + os.path.basename(p)[:-10] not in after]
    if stray:
        run.fail('oracle', 'the trash directory lies inside the argument: an info file was left that describes no payload',
                 dict(case, stray=[esc(p) for p in stray]), key='stray-info', section=section)
    here = all(p in after and after[p][:1] == before[p][:1] and (before[p][0] != 'f' or after[p] == before[p]) for p in before if engine.under(p, arg))
    moved = [p for p in after if p.endswith('/files/' + os.path.basename(arg)) and p not in before]
    if o['exit'] == 0 and (not moved or arg in after):
        run.fail('oracle', 'exit 0, but the argument was not trashed', case, key='success-without-entry', section=section)
    if o['exit'] != 0 and not here:
        run.fail('oracle', 'failure reported, but the argument is not in place and whole', case, key='failed-but-touched', section=section)
    if o['exc'] is not None:
        run.fail('oracle', 'trash-put ended with an uncaught exception', case, key='uncaught-exception', section=section)
    run.nontriv(('selfnest', arg, o['exit'], bool(moved), scn['steps'][0]['argv'][0]))


def judge_atfile(run, scn, res, section='argument-beginning-with-@'):
    run.count(section)
    o = res['steps'][0]
    before, after = res['before'], o['after']
    jm = scn['judge_meta']
    case = {'scenario': scn, 'exit': o['exit'], 'stderr': o['stderr'][-400:]}
    touched = [p for p in jm['bystanders'] if p in before and after.get(p) != before.get(p)]
    left = [p for p in jm['named'] if p in after]
    if touched or left or o['exit'] != 0:
        run.fail('oracle', "an argument beginning with '@' names the entry of that name: it must be trashed (exit 0) and nothing that was not "
                 'named may move', dict(case, not_trashed=left, moved_though_not_named=touched), key='at-argument-expanded', section=section)
    run.nontriv(('atfile', tuple(scn['steps'][0]['argv']), o['exit'], '/home/u/w/todo' in before))


def judge_overlap(run, scn, res, section='argument-inside-a-later-one'):
    run.count(section)
    o = res['steps'][0]
    before, after = res['before'], o['after']
    jm = scn['judge_meta']
    td = '/home/u/.local/share/Trash'
    ents = engine.entries_of(after, td)
    paths = sorted((e['info'] or b'').split(b'\n')[1][5:].decode() for e in ents.values() if e['info'] and e['payload'] is not None and len((e['info'] or b'').split(b'\n')) > 1)
    case = {'scenario': scn, 'exit': o['exit'], 'stderr': o['stderr'][-400:], 'recorded': paths}
    if o['exit'] != 0 or paths != sorted([jm['inner'], jm['outer']]) or jm['outer'] in after:
        run.fail('oracle', 'an argument inside a later argument: both must be trashed, each with its own entry, in command-line order (exit 0)',
                 case, key='overlapping-arguments', section=section)
    run.nontriv(('overlap', jm['inner'], scn['steps'][0]['argv'][-1], o['exit']))


def replay(run, payload):
    case = payload.get('case') or {}
    scn = case.get('scenario')
    if not scn:
        return
    if (scn.get('judge_meta') or {}).get('family') == 'atfile':
        judge_atfile(run, scn, sandbox.execute(scn), 'replay')
        return
    if (scn.get('judge_meta') or {}).get('family') == 'overlap':
        judge_overlap(run, scn, sandbox.execute(scn), 'replay')
        return
    if (scn.get('judge_meta') or {}).get('family') == 'selfnest':
        judge_selfnest(run, scn, sandbox.execute(scn), 'replay')
        return
    res = sandbox.execute(scn)
    o = res['steps'][0]
    print('trash-put', [esc(a) for a in scn['steps'][0]['argv']], 'exit', o['exit'], 'exc', o['exc'])
    print(' stderr:', esc(o['stderr'][:800]))
    before, after = res['before'], o['after']
    for p in engine.changed_paths(before, after)[:40]:
        print('  changed', esc(p), before.get(p, ('-',))[0], '->', after.get(p, ('-',))[0])
    args = []
    av = scn['steps'][0]['argv']
    av = av[av.index('--') + 1:] if '--' in av else [a for a in av if not a.startswith('-')]
    import os
    for a in av:
        p = os.path.normpath(os.path.join(scn.get('cwd', '/'), a))
        args.append({'arg': a, 'kind': '?', 'entry': p if p in before and os.path.basename(a.rstrip('/')) not in ('.', '..') else None, 'expect': '?'})
    meta = scn.get('judge_meta') or {'args': args, 'mode': '?'}
    putlib.conservation(run, scn, meta, res, 'state')
    if o['exc'] is not None and not (scn['steps'][0].get('plan') or {}):
        run.fail('oracle', 'trash-put ended with an uncaught exception (exit %s)' % o['exit'], {'scenario': scn, 'exc': o['exc']},
                 key='uncaught-exception', section='state')
    jp, js = [], []
    monitors(run, scn, res, jp, js)
    engine.run_monitors(run, 'put-monitor', jp, 'put-discipline monitor rejects', 'put-discipline')
    engine.run_monitors(run, 'skip-monitor', js, 'untouched-arguments monitor rejects', 'mutation-for-skipped-argument', silent=True)
