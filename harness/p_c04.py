"""C04 - a trashed entry is never overwritten: names stay unique, also under concurrency."""
import copy
import errno
import itertools

import engine
import putlib
import sandbox
import scen
from common import esc

RULE = ("trace level: every sequential trash-put run must issue exactly the operations of the Coq model - in particular the probe of the "
        "payload name followed by the exclusive create (O_CREAT|O_EXCL, 0600) and the retry with the next suffix, which are the atomic steps "
        "of the proved interleaving model; schedule level: REAL trash-put processes trashing same-named entries (file / directory / "
        "symlink mixes) into one trash directory run under a lock-step scheduler that grants one library operation at a time: systematic "
        "schedules (one process runs entirely between the k-th and k+1-th operation of the other, both ways, every k; strict alternation), "
        "random schedules, pre-states {empty trash (first use: the makedirs race), a complete entry of that name, a payload without info "
        "(file, directory, dangling link), an info without payload}, 2 and 3 processes, plus free-running processes; history level: up to "
        "105 same-named entries trashed one after another (suffixes become random after 99). Judged: every successful process owns a "
        "distinct files/N + info/N.trashinfo pair whose payload is exactly its entry; pre-existing entries intact; #new pairs = #successes. "
        "distinct = (pre-state, kinds, schedule shape, #processes, outcome).")
ASSUMPTIONS = ["a pre-existing payload WITHOUT info that os.path.exists cannot see (a dangling symlink) is not a trashed entry: it may be replaced"]

KINDS = ['f', 'd', 'l']


RULE += ' Since round 8: lock step with a failing .trashinfo write in process 0 (ENOSPC/EDQUOT/EIO on every write) while names are taken.'


def victim_nodes(path, kind, tag):
    if kind == 'f':
        return [['f', path, 'content of %s' % tag]]
    if kind == 'd':
        return [['d', path, 0o755], ['f', path + '/inside', 'inside %s' % tag]]
    return [['l', path, 'target-%s' % tag]]


def prestate(td, name, pre):
    if pre == 'empty':
        return []
    if pre == 'pair':
        return scen.entry(td, name, '/old/' + name, '2001-01-01T00:00:00', 'f', data='OLD')
    if pre == 'pair_dir':
        return scen.entry(td, name, '/old/' + name, '2001-01-01T00:00:00', 'd')
    if pre == 'files_only':
        return [['d', td + '/files', 0o700]]          # a trash directory with files/ and no info/ (yet): what the first moments of another put look like
    if pre == 'orphan_f':
        return [['f', td + '/files/' + name, 'orphan'], ['d', td + '/info', 0o700]]
    if pre == 'orphan_d':
        return [['d', td + '/files/' + name, 0o755], ['f', td + '/files/' + name + '/o', 'o'], ['d', td + '/info', 0o700]]
    if pre == 'orphan_l':
        return [['l', td + '/files/' + name, 'dangling'], ['d', td + '/info', 0o700]]
    return [['f', td + '/info/' + name + '.trashinfo', scen.TI % ('/old/' + name, '2001-01-01T00:00:00')], ['d', td + '/files', 0o700]]


def judge(run, scn, res, victims, pre, shape, section):
    """victims: [(path, kind)] one per process"""
    before, after = res['before'], res['after']
    td = '/home/u/.local/share/Trash'
    case = {'scenario': scn, 'schedule': shape, 'exits': [o.get('exit') for o in res['steps']], 'stderr': [o.get('stderr', '')[-200:] for o in res['steps']]}
    run.count(section)
    if any(o.get('timeout') or o.get('harness_error') for o in res['steps']):
        run.fail('harness', 'a concurrent process hung or crashed in the harness', case)
        return
    # entries of EVERY trash directory (a refused home trash makes trash-put fall through to /.Trash-uid), keyed td:name
    def all_entries(snap):
        out = {}
        for t in sorted(set(engine.trash_dirs_in(snap)) | {td}):
            for name, e in engine.entries_of(snap, t).items():
                out[t + ':' + name] = e
        return out
    eb, ea = all_entries(before), all_entries(after)
    # pre-existing entries (pairs, and orphans that exists() can see, and infos) intact
    for name, e in eb.items():
        a = ea.get(name)
        visible = e['payload'] is not None and not (e['payload'].get('', ('',))[0] == 'l')
        if e['info'] is not None and (a is None or a['info'] != e['info']):
            run.fail('oracle', 'a pre-existing .trashinfo was replaced or lost', dict(case, name=esc(name)), key='old-info-lost', section=section)
        if e['payload'] is not None and (e['info'] is not None or visible) and (a is None or a['payload'] != e['payload']):
            run.fail('oracle', 'a previously trashed entry was replaced, merged into or lost', dict(case, name=esc(name)), key='old-entry-overwritten', section=section)
    ok = 0
    used = set()
    for (path, kind), o in zip(victims, res['steps']):
        orig = sandbox.subtree(before, path)
        if o.get('exit') == 0:
            ok += 1
            mine = None
            for name, e in ea.items():
                if name in used or e['info'] is None or e['payload'] is None:
                    continue
                if putlib.loose(e['payload']) == putlib.loose(orig) and (eb.get(name, {}).get('info') is None):
                    pv = [l for l in e['info'].split(b'\n') if l.startswith(b'Path=')] if isinstance(e['info'], bytes) else []
                    if pv and pv[0] in (b'Path=' + path.encode(), b'Path=' + path.lstrip('/').encode()):
                        mine = name
                        break
            if mine is None or path in after:
                run.fail('oracle', 'a successful trash-put does not own a distinct complete pair holding exactly its entry',
                         dict(case, victim=path, kind=kind, names=[esc(n) for n in ea]), key='no-own-pair', section=section)
            else:
                used.add(mine)
        else:
            if sandbox.subtree(after, path) != orig and putlib.loose(sandbox.subtree(after, path)) != putlib.loose(orig):
                run.fail('oracle', 'a failed trash-put did not leave its entry intact', dict(case, victim=path), key='failed-but-touched', section=section)
    nofault = not any((st.get('plan') or {}).get(k) for st in (scn.get('steps') or []) for k in ('faults', 'fault', 'sysfault', 'sysfaults'))
    if (section in ('lockstep-2', 'lockstep-3', 'free-running', 'sequential-state') or (section == 'replay' and nofault)) and ok != len(victims):
        run.fail('oracle', 'no file-system error was injected, yet a trash-put failed', dict(case, successes=ok), key='put-failed-without-error', section=section)
    newpairs = [n for n, e in ea.items() if e['info'] is not None and e['payload'] is not None and not (eb.get(n, {}).get('info') is not None and eb.get(n, {}).get('payload') is not None)]
    if len(newpairs) != ok:
        run.fail('oracle', 'the number of new complete pairs differs from the number of successful puts',
                 dict(case, new_pairs=[esc(n) for n in newpairs], successes=ok), key='pair-count', section=section)
    run.nontriv((section, pre, tuple(k for _, k in victims), shape if isinstance(shape, str) else 'random', ok))


def make_scn(nproc, kinds, pre, name='foo'):
    td = '/home/u/.local/share/Trash'
    tree = [['d', '/home/u', 0o755]]
    victims = []
    for i in range(nproc):
        d = '/src%d' % i
        tree.append(['d', d, 0o755])
        tree += victim_nodes(d + '/' + name, kinds[i], 'p%d' % i)
        victims.append((d + '/' + name, kinds[i]))
    tree += prestate(td, name, pre)
    scn = {'tree': tree, 'mounts': [], 'cwd': '/', 'uid': 0, 'env': {'HOME': '/home/u', 'TRASH_VOLUMES': '/'}}
    steps = [{'cmd': 'put', 'argv': ['--', v[0]], 'now': [2024, 1, 1, 0, 0, i, 0], 'randints': [1000 + i, 2000 + i, 3000 + i]} for i, v in enumerate(victims)]
    return scn, steps, victims


def judge_same_source(run, scn, res, path, shape, section='lockstep-2-same-source'):
    run.count(section)
    if res.get('harness_error') or len(res.get('steps') or []) != 2:
        run.fail('harness', 'sandbox failure', {'error': res.get('harness_error'), 'scenario': scn})
        return
    case = {'scenario': scn, 'schedule': shape, 'same_source': path, 'exits': [o['exit'] for o in res['steps']], 'stderr': [o['stderr'][-200:] for o in res['steps']]}
    after = res.get('after') or res['steps'][-1].get('after')
    pairs, strays, orphans = putlib.new_trash_items(res['before'], after)

    def saw(o):
        return any(t[0] in ('lexists', 'exists') and t[1] and t[1][0] == path and t[2] == ['ok', True] for t in o['trace'])
    claimed = [i for i, o in enumerate(res['steps']) if o['exit'] == 0 and saw(o)]
    if len(claimed) > len(pairs):
        run.fail('oracle', 'two trash-puts of the same file: %d of them saw it and reported success, but %d entr%s in the trash - a put '
                 'that owns nothing says it trashed the file' % (len(claimed), len(pairs), 'y is' if len(pairs) == 1 else 'ies are'), case,
                 key='success-without-entry', section=section)
    if len(pairs) > 1 or strays or orphans:
        run.fail('oracle', 'two trash-puts of the same file left more than one entry, or a half entry', dict(case, pairs=len(pairs), strays=strays[:3], orphans=orphans[:3]),
                 key='same-source-leftovers', section=section)
    run.nontriv(('same-source', tuple(case['exits']), len(pairs), '-f' in scn['steps'][0]['argv']))


def schedules_systematic(nops=14):
    """process 1 runs entirely between the k-th and (k+1)-th operation of process 0, and the other way round; alternation"""
    out = []
    for k in range(nops):
        out.append(('B-inside-A@%d' % k, [0] * k + [1] * 40 + [0] * 40))
        out.append(('A-inside-B@%d' % k, [1] * k + [0] * 40 + [1] * 40))
    out.append(('alternate', [0, 1] * 40))
    out.append(('alternate2', [1, 0] * 40))
    out.append(('pairs', [0, 0, 1, 1] * 20))
    return out


def run(run, thorough):
    rng = run.rng
    pres = ['empty', 'pair', 'pair_dir', 'orphan_f', 'orphan_d', 'orphan_l', 'info_only', 'files_only']
    # --- sequential history: many same-named entries, suffixes become random after 99
    n = 105 if thorough else 103
    tree = [['d', '/home/u', 0o755]]
    steps, victims = [], []
    for i in range(n):
        k = KINDS[i % 3]
        tree.append(['d', '/s/%d' % i, 0o755])
        tree += victim_nodes('/s/%d/same' % i, k, 's%d' % i)
        victims.append(('/s/%d/same' % i, k))
        steps.append({'cmd': 'put', 'argv': ['--', '/s/%d/same' % i], 'now': [2024, 1, 1, 0, i // 60, i % 60, 0],
                      'randints': ([7, 7, 8] if i < 102 else [9, 9, 12]) if i >= 100 else []})     # the same random suffix twice: a collision on the random tail too
    # a payload without .trashinfo sits on a name of the random tail (same_9): it must be probed and skipped there as well
    tree += [['d', '/home/u/.local/share/Trash/files/same_9', 0o755], ['f', '/home/u/.local/share/Trash/files/same_9/left', 'left over'],
             ['d', '/home/u/.local/share/Trash/info', 0o700]]
    scn = {'tree': tree, 'mounts': [], 'cwd': '/', 'uid': 0, 'env': {'HOME': '/home/u', 'TRASH_VOLUMES': '/'}, 'steps': steps}
    out = engine.run_all(run, 'sequential', [scn])
    for s, res in out:
        fake = {'before': res['before'], 'after': res['steps'][-1]['after'], 'steps': res['steps']}
        judge(run, s, fake, victims, 'empty', 'sequential-%d' % n, 'sequential-state')
    # --- a file system that rejects exclusive creates (EINVAL on every O_EXCL open), two processes in lock step: without the
    # exclusive create there is no safe way to reserve a name - both must fail rather than share one
    for shape, sched in schedules_systematic(nops=8)[::2]:
        scn, steps, victims = make_scn(2, ('f', 'f'), 'empty')
        for st in steps:
            st['plan'] = {'faults': {'open': {'errno': errno.EINVAL, 'excl': True}}}
        res = sandbox.execute_concurrent(scn, steps, sched)
        judge(run, dict(scn, steps=steps), res, victims, 'empty', 'no-excl:' + shape, 'lockstep-2-no-excl')
    # --- another trash-put runs to completion INSIDE this one, right after its k-th library operation (every k, probes included), while
    # the home trash directory does not exist yet: both create it, both entries are whole afterwards
    td = '/home/u/.local/share/Trash'
    scn0 = {'tree': [['d', '/home/u', 0o755], ['d', '/s', 0o755], ['f', '/s/mine', 'mine']], 'mounts': [], 'cwd': '/', 'uid': 0,
            'env': {'HOME': '/home/u', 'TRASH_VOLUMES': '/'}, 'steps': [{'cmd': 'put', 'argv': ['--', '/s/mine'], 'now': [2024, 1, 1, 0, 0, 0, 0]}]}
    base = sandbox.execute(scn0)
    if base.get('steps'):
        nlib = len([t for t in base['steps'][0]['trace'] if len(t) > 3 and t[3]])
        other_info = scen.TI % ('/s/other', '2024-01-01T00:00:00')
        inside = []
        for k in range(1, nlib + 1):
            s2 = copy.deepcopy(scn0)
            s2['steps'][0]['plan'] = {'midlib': {'after': k, 'ops': [['mkdir', td + '/info'], ['mkdir', td + '/files'],
                                                                    ['write', td + '/info/other.trashinfo', other_info], ['write', td + '/files/other', 'theirs']]}}
            inside.append(s2)
        for s2, r in zip(inside, sandbox.execute_many(inside) if inside else []):
            if r.get('steps'):
                judge_inside(run, s2, r)
    # --- names too long for their .trashinfo: the info name is truncated, and so is the payload name that must be probed
    longs = []
    for ln, pre in ((250, 'orphan_f'), (250, 'pair'), (246, 'orphan_d'), (255, 'orphan_f'), (245, 'orphan_f')):
        name = 'x' * ln
        td = '/home/u/.local/share/Trash'
        tree = [['d', '/home/u', 0o755], ['d', '/src', 0o755], ['f', '/src/' + name, 'long one']]
        for suffix in ('', '_1'):
            after_len = len(suffix) + len('.trashinfo')
            tname = name[:len(name) - after_len] + suffix if ln + 10 > 255 else name + suffix
            tree += prestate(td, tname, pre)
        scn = {'tree': tree, 'mounts': [], 'cwd': '/', 'uid': 0, 'env': {'HOME': '/home/u', 'TRASH_VOLUMES': '/'},
               'steps': [{'cmd': 'put', 'argv': ['--', '/src/' + name], 'now': [2024, 1, 1, 0, 0, 0, 0]}]}
        longs.append((scn, [('/src/' + name, 'f')], pre))
    out = engine.run_all(run, 'long-names', [s for s, v, p in longs])
    for (s, res), (s0, v, pre) in zip(out, longs):
        fake = {'before': res['before'], 'after': res['steps'][-1]['after'], 'steps': res['steps']}
        judge(run, s, fake, v, pre, 'sequential-long-name', 'long-names-state')
    # --- lock step, 2 processes
    plans = []
    for pre in pres:
        for kinds in ([('f', 'f'), ('f', 'd'), ('d', 'f'), ('d', 'd'), ('l', 'f'), ('d', 'l')] if thorough else [rng.choice([('f', 'f'), ('f', 'd'), ('d', 'd'), ('l', 'd'), ('d', 'f')])]):
            for shape, sched in schedules_systematic():
                plans.append((pre, kinds, shape, sched))
            for _ in range(6 if not thorough else 60):
                plans.append((pre, kinds, 'random', [rng.randint(0, 1) for _ in range(60)]))
    for pre, kinds, shape, sched in plans:
        scn, steps, victims = make_scn(2, kinds, pre)
        res = sandbox.execute_concurrent(scn, steps, sched)
        scn2 = dict(scn, steps=steps)
        judge(run, scn2, res, victims, pre, shape if shape != 'random' else sched, 'lockstep-2')
    # --- lock step with a FAILING move in process 0 (EACCES on every move it attempts): its clean-up runs interleaved with a second
    # trash-put of the same name; whatever process 0 undoes must be its own reservation only
    for pre in (['empty', 'orphan_l', 'info_only'] if not thorough else pres):
        kinds = rng.choice([('f', 'f'), ('d', 'f'), ('f', 'd')])
        # three-phase schedules: the failing process gets as far as its exclusive create, the other one runs into the taken name, the
        # failing one fails and cleans up, the other one goes on - for every plausible position of the two cuts
        three = [('random', [0] * a + [1] * b + [0] * c + [1] * 40 + [0] * 40) for a in (4, 5, 6) for b in (4, 5, 6) for c in (4, 5, 6)] if pre == 'empty' else []
        for shape, sched in schedules_systematic(nops=12) + three + [('random', [rng.randint(0, 1) for _ in range(80)]) for _ in range(6 if not thorough else 60)]:
            if shape == 'random':
                shape = 'random:' + ''.join(str(x) for x in sched)
            scn, steps, victims = make_scn(2, kinds, pre)
            steps[0]['plan'] = {'faults': {'move': {'errno': errno.EACCES}}}
            if shape.startswith('random:') and sched in [x[1] for x in three]:
                # one candidate only: a bystander that gives up on the name has nowhere else to go, and must not give up
                for st in steps:
                    st['argv'] = ['--trash-dir', '/home/u/.local/share/Trash'] + st['argv']
            res = sandbox.execute_concurrent(scn, steps, sched)
            judge(run, dict(scn, steps=steps), res, victims, pre, 'failing-move:' + shape, 'lockstep-2-failing-move')
            judge_bystander(run, dict(scn, steps=steps), res, 'failing-move:' + shape)
    # --- lock step with a FAILING write of the .trashinfo in process 0 (no space / quota / I/O error on every write it attempts), names
    # already taken in the trash: whatever process 0 cleans up must be the file it had just created - never the .trashinfo of the
    # earlier entry of that name, never the other process's
    for pre in ['pair', 'info_only', 'pair_dir']:
        kinds = rng.choice([('f', 'f'), ('d', 'f'), ('f', 'd')])
        scheds = schedules_systematic(nops=12)[::3] + [('random', [rng.randint(0, 1) for _ in range(80)]) for _ in range(3 if not thorough else 40)]
        for shape, sched in scheds:
            if shape == 'random':
                shape = 'random:' + ''.join(str(x) for x in sched)
            scn, steps, victims = make_scn(2, kinds, pre)
            steps[0]['plan'] = {'faults': {'write': {'errno': rng.choice([errno.ENOSPC, errno.EDQUOT, errno.EIO])}}}
            res = sandbox.execute_concurrent(scn, steps, sched)
            judge(run, dict(scn, steps=steps), res, victims, pre, 'failing-write:' + shape, 'lockstep-2-failing-write')
            judge_bystander(run, dict(scn, steps=steps), res, 'failing-write:' + shape, section='lockstep-2-failing-write')
    # --- two trash-puts of the SAME path, with and without -f, in lock step: there is one file, so one entry - at most one of the two may
    # report that it trashed it (exit 0 after having seen it there); the other one lost the race and says so, or (with -f) found nothing
    for force in (False, True):
        for shape, sched in schedules_systematic(nops=12) + [('random', [rng.randint(0, 1) for _ in range(60)]) for _ in range(4 if not thorough else 40)]:
            scn, steps, victims = make_scn(2, ('f', 'f'), 'empty')
            for st in steps:
                st['argv'] = (['-f'] if force else []) + ['--', victims[0][0]]
            res = sandbox.execute_concurrent(scn, steps, sched)
            judge_same_source(run, dict(scn, steps=steps), res, victims[0][0], shape if shape != 'random' else sched)
    # --- 3 processes, random schedules
    for _ in range(15 if not thorough else 200):
        pre = rng.choice(pres)
        kinds = tuple(rng.choice(KINDS) for _ in range(3))
        scn, steps, victims = make_scn(3, kinds, pre)
        sched = [rng.randint(0, 2) for _ in range(90)]
        res = sandbox.execute_concurrent(scn, steps, sched)
        judge(run, dict(scn, steps=steps), res, victims, pre, sched, 'lockstep-3')
    # --- free running
    for _ in range(6 if not thorough else 40):
        kinds = tuple(rng.choice(KINDS) for _ in range(6))
        scn, steps, victims = make_scn(6, kinds, rng.choice(pres))
        res = sandbox.execute_concurrent(scn, steps, None)
        judge(run, dict(scn, steps=steps), res, victims, 'free', 'free-running', 'free-running')
    run.sample({'level': 'schedule', 'processes': 2, 'schedule': 'B-inside-A@5', 'pre_state': 'orphan_d', 'kinds': ['f', 'd']})


def judge_bystander(run, scn2, res, shape, section='lockstep-2-failing-move'):
    """process 1 meets no error of its own: a name taken (for a while) by the failing process 0 is a reason to take the next name, not to fail"""
    o1 = res['steps'][1]
    if not (o1.get('timeout') or o1.get('harness_error')) and o1.get('exit') != 0:
        run.fail('oracle', 'a trash-put that met no file-system error failed because another trash-put of the same name was failing next to it',
                 {'scenario': scn2, 'schedule': shape, 'exits': [o.get('exit') for o in res['steps']], 'stderr': [o.get('stderr', '')[-300:] for o in res['steps']]},
                 key='bystander-failed', section=section)


def judge_inside(run, s2, r, section='put-inside-put'):
    td = '/home/u/.local/share/Trash'
    run.count(section)
    o, snap = r['steps'][0], r['steps'][0]['after']
    ents = engine.entries_of(snap, td)
    oth = ents.get('other')
    case = {'scenario': s2, 'schedule': 'put-inside-put', 'exit': o['exit'], 'stderr': o['stderr'][-300:]}
    if oth is None or oth['payload'] is None or oth['info'] is None or not engine.info_parseable(oth['info']):
        run.fail('oracle', 'the entry another trash-put completed meanwhile was damaged or lost', case, key='concurrent-entry-lost', section=section)
    mine = [n for n, e in ents.items() if n != 'other']
    if o['exit'] == 0 and not any(ents[n]['payload'] is not None and ents[n]['info'] is not None for n in mine):
        run.fail('oracle', 'trash-put exited 0 without a complete entry of its own', case, key='success-without-entry', section=section)


def replay(run, payload):
    case = payload.get('case') or {}
    scn = case.get('scenario')
    if not scn:
        return
    if case.get('schedule') == 'put-inside-put':
        r = sandbox.execute(scn)
        if r.get('steps'):
            judge_inside(run, scn, r, 'replay')
        return
    if case.get('same_source'):
        sched = case.get('schedule')
        if isinstance(sched, str):
            sched = dict(schedules_systematic(nops=12)).get(sched, [0, 1] * 40)
        res = sandbox.execute_concurrent({k: v for k, v in scn.items() if k != 'steps'}, scn['steps'], sched)
        judge_same_source(run, scn, res, case['same_source'], case.get('schedule'), 'replay')
        return
    steps = scn.get('steps') or []
    sched = case.get('schedule')
    victims = []
    for st in steps:
        p = st['argv'][-1]
        kind = [e[0] for e in scn['tree'] if e[1] == p]
        victims.append((p, kind[0] if kind else '?'))
    if isinstance(sched, str) and sched.startswith('sequential'):
        res = sandbox.execute(scn)
        fake = {'before': res['before'], 'after': res['steps'][-1]['after'], 'steps': res['steps']}
        judge(run, scn, fake, victims, '?', sched, 'sequential-state')
        return
    if isinstance(sched, str) and sched.startswith('no-excl:'):
        sched = dict(schedules_systematic(nops=8)).get(sched[len('no-excl:'):], [0, 1] * 40)
    for fam in ('failing-move:', 'failing-write:'):
        if isinstance(sched, str) and sched.startswith(fam + 'random:'):
            sched = [int(c) for c in sched[len(fam + 'random:'):]]
        if isinstance(sched, str) and sched.startswith(fam):
            sched = dict(schedules_systematic(nops=12)).get(sched[len(fam):], [0, 1] * 40)
    if isinstance(sched, str):
        sched = dict(schedules_systematic()).get(sched, [0, 1] * 40) if sched != 'free-running' else None
    res = sandbox.execute_concurrent({k: v for k, v in scn.items() if k != 'steps'}, steps, sched)
    print('exits', [o.get('exit') for o in res['steps']])
    if isinstance(case.get('schedule'), str) and case['schedule'].startswith(('failing-move:', 'failing-write:')):
        judge_bystander(run, scn, res, case['schedule'], 'replay')
    judge(run, scn, res, victims, '?', sched if sched is not None else 'free-running', 'replay')
