"""Trace-level correspondence: the library-boundary operations the real command issued (recorded by the
shim) replayed as the answer oracle into the Coq `prog` model (run_oracle, extracted): the model must
issue exactly the same operations in the same order, end with the same status and the same output."""
import os

from common import tok_s, tok_n, tok_b, tok_l, tok_z, model_batch, esc

EXN = {'eude': 'UnicodeDecodeError', 'euee': 'UnicodeEncodeError', 'eparse': 'ParseError', 'evalue': 'ValueError',
       'etype': 'TypeError', 'eindex': 'IndexError', 'eoverflow': 'OverflowError', 'eeof': 'EOFError',
       'ekbd': 'KeyboardInterrupt', 'eshutil': 'Error'}


def _ans_err(r):
    kind, eno = r[1], r[2]
    if kind == 'ShutilError':
        return 'eshutil'
    if kind == 'OSError' or eno is not None:
        return 'eos:%d' % (eno if eno is not None else 0)
    return {'UnicodeDecodeError': 'eude', 'EOFError': 'eeof', 'KeyboardInterrupt': 'ekbd'}.get(kind, 'evalue')


def convert(trace):
    """shim records -> [(op_string, answer_token)] in the model's alphabet; None for unknown ops"""
    out = []
    i = 0
    while i < len(trace):
        name, args, r = trace[i][:3]
        i += 1
        if r is None or r[0] == 'crash':
            out.append(('?' + name, None))
            continue
        ok = r[0] == 'ok'
        val = r[1] if ok else None
        if name in ('lexists', 'exists', 'isdir', 'isfile', 'islink', 'ismount'):
            out.append(('%s:%s' % (name, tok_s(args[0])), tok_b(val) if ok else _ans_err(r)))
        elif name == 'access':
            out.append(('access:' + tok_s(args[0]), tok_b(val) if ok else _ans_err(r)))
        elif name in ('realpath', 'abspath'):
            out.append(('%s:%s' % (name, tok_s(args[0])), tok_s(val) if ok else _ans_err(r)))
        elif name == 'getsize':
            out.append(('getsize:' + tok_s(args[0]), tok_z(val) if ok else _ans_err(r)))
        elif name == 'stat':
            out.append(('stat:' + tok_s(args[0]), ('t%d,%d' % (val[0], val[6])) if ok else _ans_err(r)))
        elif name == 'listdir':
            out.append(('listdir:' + tok_s(args[0]), tok_l(val) if ok else _ans_err(r)))
        elif name == 'open_read':
            if not ok:
                out.append(('readtext:' + tok_s(args[0]), _ans_err(r)))
            else:
                if i < len(trace) and trace[i][0] == 'read':
                    rr = trace[i][2]
                    i += 1
                    if rr[0] == 'ok' and not isinstance(rr[1], str):
                        # the file was read in some other way than as text (binary mode, partial read): not the modelled operation
                        out.append(('!unmodelled:binary-read:' + tok_s(args[0]), None))
                    else:
                        out.append(('readtext:' + tok_s(args[0]), tok_s(rr[1]) if rr[0] == 'ok' else _ans_err(rr)))
                else:
                    out.append(('readtext:' + tok_s(args[0]), None))
        elif name == 'makedirs':
            out.append(('makedirs:%s:%s' % (tok_s(args[0]), tok_n(args[1])), 'u' if ok else _ans_err(r)))
        elif name == 'open':
            if args[1] & os.O_EXCL:
                out.append(('openexcl:' + tok_s(args[0]), 'u' if ok else _ans_err(r)))
            else:
                out.append(('!unmodelled:open:' + tok_s(args[0]), None))
        elif name == 'write':
            out.append(('write:' + tok_s(bytes.fromhex(args[0]['__b'])), 'u' if ok else _ans_err(r)))
        elif name == 'close':
            out.append(('close', 'u' if ok else _ans_err(r)))
        elif name == 'move':
            out.append(('move:%s:%s' % (tok_s(args[0]), tok_s(args[1])), 'u' if ok else _ans_err(r)))
        elif name in ('remove', 'unlink'):
            out.append(('remove:' + tok_s(args[0]), 'u' if ok else _ans_err(r)))
        elif name == 'rmtree':
            out.append(('rmtree:' + tok_s(args[0]), 'u' if ok else _ans_err(r)))
        elif name == 'now':
            out.append(('now', 'd%d-%d-%d-%d-%d-%d-%d' % tuple(val)))
        elif name == 'randint':
            out.append(('randint:%s:%s' % (tok_z(args[0]), tok_z(args[1])), tok_z(val)))
        elif name == 'list_mounts':
            out.append(('listmounts', tok_l(val)))
        elif name == 'input':
            out.append(('input:' + tok_s(args[0]), tok_s(val) if ok else _ans_err(r)))
        elif name == 'isatty':
            out.append(('isatty', tok_b(val)))
        else:
            out.append(('!unmodelled:' + name, None))
    return out


def env_tok(env):
    items = []
    for k, v in env.items():
        items += [k, v]
    return tok_l(items)


def put_request(scn, step, conv, fuel=400):
    """argv of the scenario -> the options record the model starts from (argparse itself is exercised on the real side)"""
    argv = list(step.get('argv') or [])
    paths, td, mode, fv, hf, verbose = [], '', 0, '', False, 0
    i = 0
    only_files = False
    while i < len(argv):
        a = argv[i]
        if only_files or not a.startswith('-') or a == '-':
            paths.append(a)
        elif a == '--':
            only_files = True
        elif a in ('-f', '--force'):
            mode = 2
        elif a in ('-i', '--interactive'):
            mode = 1
        elif a == '--trash-dir':
            i += 1
            td = argv[i]
        elif a.startswith('--trash-dir='):
            td = a.split('=', 1)[1]
        elif a == '--force-volume':
            i += 1
            fv = argv[i]
        elif a == '--home-fallback':
            hf = True
        elif a in ('-v', '--verbose'):
            verbose += 1
        elif a == '-vv':
            verbose += 2
        elif a == '--all-users':
            au = True
        elif a in ('-d', '-r', '-R', '--directory', '--recursive'):
            pass
        else:
            return None
        i += 1
    env = dict(scn.get('env') or {})
    for k, v in (step.get('env') or {}).items():
        if v is None:
            env.pop(k, None)
        else:
            env[k] = v
    uid = int(env['TRASH_PUT_FAKE_UID_FOR_TESTING']) if 'TRASH_PUT_FAKE_UID_FOR_TESTING' in env else scn.get('uid', 0)
    args = [tok_l(paths), tok_s(td), tok_n(mode), tok_s(fv), tok_b(hf), tok_n(verbose), env_tok(env), tok_n(uid), tok_n(fuel)]
    return ('run_put', args + [a for _, a in conv]), verbose


def _env_uid(scn, step):
    env = dict(scn.get('env') or {})
    for k, v in (step.get('env') or {}).items():
        if v is None:
            env.pop(k, None)
        else:
            env[k] = v
    return env, scn.get('uid', 0)


def users_tok(step, all_users):
    """the password database --all-users walks, as the model takes it: 'N' without the option, else (pw_dir, pw_uid)*.  Only a faked
    database (step['users']) is known to the harness; with the real one the run is left to the oracles."""
    if not all_users:
        return 'N'
    if step.get('users') is None:
        return None
    items = []
    for _name, uid, home in step['users']:
        items += [home, str(uid)]
    return tok_l(items) if items else 'l-'


def list_request(scn, step, conv):
    argv = list(step.get('argv') or [])
    tds, size, files, au = [], False, False, False
    i = 0
    while i < len(argv):
        a = argv[i]
        if a == '--trash-dir':
            i += 1
            tds.append(argv[i])
        elif a.startswith('--trash-dir='):
            tds.append(a.split('=', 1)[1])
        elif a == '--size':
            size = True
        elif a == '--files':
            files = True
        elif a == '--all-users':
            au = True
        else:
            return None
        i += 1
    env, uid = _env_uid(scn, step)
    users = users_tok(step, au)
    if users is None:
        return None
    return ('run_list', [tok_l(tds), tok_b(size), tok_b(files), env_tok(env), tok_n(uid), users] + [a for _, a in conv]), 0


def empty_request(scn, step, conv):
    argv = list(step.get('argv') or [])
    tds, inter, days, dry, verbose, au = [], 0, None, False, 0, False
    i = 0
    while i < len(argv):
        a = argv[i]
        if a == '--trash-dir':
            i += 1
            tds.append(argv[i])
        elif a.startswith('--trash-dir='):
            tds.append(a.split('=', 1)[1])
        elif a in ('-i', '--interactive'):
            inter = 1
        elif a == '-f':
            inter = 2
        elif a == '--dry-run':
            dry = True
        elif a in ('-v', '--verbose'):
            verbose += 1
        elif a == '-vv':
            verbose += 2
        elif a == '--all-users':
            au = True
        elif a.isdigit() and a.isascii() and days is None:
            days = int(a)
        else:
            return None
        i += 1
    env, uid = _env_uid(scn, step)
    users = users_tok(step, au)
    if users is None:
        return None
    return ('run_empty', [tok_l(tds), tok_n(inter), 'N' if days is None else tok_z(days), tok_b(dry), tok_n(verbose),
                          env_tok(env), tok_n(uid), users] + [a for _, a in conv]), 0


def rm_request(scn, step, conv):
    env, uid = _env_uid(scn, step)
    return ('run_rm', [tok_l(list(step.get('argv') or [])), env_tok(env), tok_n(uid)] + [a for _, a in conv]), 0


def restore_request(scn, step, conv):
    argv = list(step.get('argv') or [])
    path, sort, td, ow = None, 0, '', False
    i = 0
    while i < len(argv):
        a = argv[i]
        if a == '--sort':
            i += 1
            sort = {'date': 0, 'path': 1, 'none': 2}.get(argv[i])
            if sort is None:
                return None
        elif a == '--trash-dir':
            i += 1
            td = argv[i]
        elif a == '--overwrite':
            ow = True
        elif not a.startswith('-') and path is None:
            path = a
        else:
            return None
        i += 1
    env, uid = _env_uid(scn, step)
    return ('run_restore', [tok_s(path or ''), tok_n(sort), tok_s(td), tok_b(ow), env_tok(env), tok_n(uid)] + [a for _, a in conv]), 0


BUILDERS = {'list': list_request, 'empty': empty_request, 'rm': rm_request, 'restore': restore_request}


def expected_streams(silent):
    """model's silent ops -> (stdout text, [(stderr line, exact)])"""
    out, errl = [], []
    for o in silent:
        parts = o.split(':')
        if parts[0] == 'input':
            out.append(_untok(parts[1]))
        elif parts[0] == 'out':
            if parts[1] == 'b1':
                errl.append((_untok(parts[2]), None))
            else:
                out.append(_untok(parts[2]))
        else:
            errl.append((_untok(parts[3]), parts[2] == 'b1'))
    return ''.join(out), errl


def split_model_ops(reply):
    ops_s, outcome = reply.split('\t')
    ops = ops_s.split(';') if ops_s else []
    real = [o for o in ops if not (o.startswith('out:') or o.startswith('log:'))]
    silent = [o for o in ops if o.startswith('out:') or o.startswith('log:') or o.startswith('input:')]
    return real, silent, outcome


def _untok(t):
    body = t[1:]
    return '' if body == '' else ''.join(chr(int(h, 16)) for h in body.split('.'))


def expected_stderr_put(silent, verbose):
    """[(text, exact)] lines trash-put's logger must have written"""
    need = {'W': 0, 'I': 1, 'D': 2}
    out = []
    for o in silent:
        parts = o.split(':')
        if parts[0] == 'log':
            if verbose >= need[parts[1]]:
                out.append(('trash-put: ' + _untok(parts[3]), parts[2] == 'b1'))
    return out


def match_lines(text, lines):
    """does `text` consist of exactly these lines (a non-exact line is a prefix up to the next newline)?
    sys.stderr writes undecodable file-name bytes (lone surrogates) with errors='backslashreplace'"""
    pos = 0
    lines = [(ln.encode('utf-8', 'backslashreplace').decode('utf-8'), ex) for ln, ex in lines]
    for ln, exact in lines:
        if exact:
            if not text.startswith(ln + '\n', pos):
                return False, 'expected line %r at %r' % (ln[:120], text[pos:pos + 120])
            pos += len(ln) + 1
        else:
            if not text.startswith(ln, pos):
                return False, 'expected prefix %r at %r' % (ln[:120], text[pos:pos + 120])
            nl = text.find('\n', pos + len(ln))
            if nl < 0:
                return False, 'unterminated line'
            pos = nl + 1
    if pos != len(text):
        return False, 'unexpected extra output %r' % text[pos:pos + 160]
    return True, ''


def check_runs(run, section, items, strict=True):
    """items: [(scn, step, obs, kind)] with kind in {'put', ...}; compares model and implementation traces"""
    reqs, metas = [], []
    for scn, step, obs in items:
        if obs.get('exit') is None and not obs.get('crashed'):
            continue
        if obs.get('crashed') or obs.get('looping') or obs.get('timeout'):
            continue
        conv = convert(obs['trace'])
        alien = [o for o, a in conv if o.startswith('!unmodelled')]
        if alien:
            run.count(section)
            run.count(section, 1, 'disagreements')
            nal = run.sections.setdefault(section, {}).get('alien_reported', 0)
            if nal < 3:
                run.sections[section]['alien_reported'] = nal + 1
                run.fail('tie', 'trace-level disagreement: the implementation issued an operation the model does not have: %s' % alien[0][:80],
                         {'scenario': scn, 'step': step, 'operation': alien[0]}, section=section)
            continue
        if any(a is None for _, a in conv):
            run.count(section, 1, 'unconvertible')
            continue
        builder = dict(BUILDERS, put=put_request).get(step['cmd'])
        if builder is None:
            continue
        rq = builder(scn, step, conv)
        if rq is None:
            run.count(section, 1, 'unmodelled_options')
            continue
        reqs.append(rq[0])
        metas.append((scn, step, obs, conv, rq[1]))
    reps = model_batch(reqs)
    bad = 0
    for (scn, step, obs, conv, verbose), rep in zip(metas, reps):
        run.count(section)
        problem = None
        if rep.startswith('!ERR'):
            problem = 'model driver error: ' + rep
        else:
            real, silent, outcome = split_model_ops(rep)
            impl_ops = [o for o, _ in conv]
            if real != impl_ops:
                k = 0
                while k < min(len(real), len(impl_ops)) and real[k] == impl_ops[k]:
                    k += 1
                problem = 'operation %d differs: impl %s / model %s' % (
                    k, impl_ops[k] if k < len(impl_ops) else '<end>', real[k] if k < len(real) else '<end>')
            else:
                if outcome.startswith('done:'):
                    want_exit = int(outcome[6:]) if outcome[5] == 'n' else None
                    if obs['exc'] is not None or obs['exit'] != want_exit:
                        problem = 'exit status: impl %r (exc %r) / model %s' % (obs['exit'], obs['exc'], outcome)
                elif outcome.startswith('uncaught:'):
                    e = outcome.split(':')[1]
                    if obs['exc'] is None:
                        problem = 'model ends with uncaught %s, implementation exits %r' % (e, obs['exit'])
                else:
                    problem = 'model stuck (wants more operations than the implementation issued)'
                if problem is None and step['cmd'] == 'put' and obs['exc'] is None:
                    okl, why = match_lines(obs['stderr'], expected_stderr_put(silent, verbose))
                    if not okl:
                        problem = 'stderr differs: ' + why
                if problem is None and step['cmd'] != 'put' and obs['exc'] is None:
                    wout, werr = expected_streams(silent)
                    if obs['stdout'] != wout:
                        problem = 'stdout differs: impl %r / model %r' % (obs['stdout'][-300:], wout[-300:])
                    else:
                        okl, why = match_lines(obs['stderr'], [(t, bool(ex)) for t, ex in werr])
                        if not okl:
                            problem = 'stderr differs: ' + why
        nm = sum(1 for o in (x[0] for x in conv) if o.split(':')[0] in ('makedirs', 'openexcl', 'write', 'close', 'move', 'remove', 'rmtree'))
        run.nontriv((section, step['cmd'], obs['exit'], obs['exc'], len(conv) // 8, nm))
        if problem:
            bad += 1
            if bad <= 3:
                run.fail('tie', 'trace-level disagreement (%s): %s' % (step['cmd'], problem.split(':')[0]),
                         {'scenario': scn, 'step': step, 'problem': problem, 'impl_exit': obs['exit'], 'impl_exc': obs['exc'],
                          'stderr': obs['stderr'][-600:]}, section=section)
    run.count(section, bad, 'disagreements')
    return bad
