"""C13 - trash-restore offers the right entries and restores exactly the indices chosen."""
import datetime
import os

import engine
import fn_logic
import sandbox
import scen
from common import esc

RULE = ("function level: parse_indexes / int() / the scope test of /repo vs the Coq functions on all replies of length <= 4 (5 thorough) over "
        "{0 1 2 9 , - space + _ x} x list lengths, all path pairs of length <= 4 over {/ a b}, plus random and hand-picked replies (huge, "
        "reversed, duplicated ranges, Unicode digits); trace level: exact correspondence of every trash-restore run with the Coq model and the "
        "Coq selection monitor accepting the recorded trace; state level: an independent reading (in this file) of scope (component "
        "boundary), order (--sort date|path|none, stable) and the reply grammar decides what must be listed, with which numbers, and which "
        "entries must be restored: exactly those printed at the chosen indices, in reply order until a refusal; an invalid or out-of-range "
        "reply restores nothing and exits non-zero; an empty reply restores nothing. distinct = (reply class, scope class, sort, #listed, outcome).")
ASSUMPTIONS = ["duplicated indices: the second restore of the same entry is refused (its destination now exists) - accepted (DESIGN 8.21 no. 7)"]

LOCS = ['/a/..hidden', '/a/...', '/a/foo/..x/y', '/a/foo', '/a/foobar', '/a/foo/x', '/a/foo/y/z', '/a/b', '/a', '/b', '/c/d/e', '/a/foo bar', '/a/é', '/']
REPLIES = ['-2-0', '1,-1-1', '-1-0', '0--1', '0', '1', '2', '0,1', '1,0', '0-1', '0-2', '2-0', '1-1', '0,0', '', ' 0', '0 ', '+1', '01', '0_1', '-1', '9', '0,9', '0-9', 'x', '1,x', '0,,1', ',',
           '1-', '-', '0-1-2', '٢', '0-99999999999', '１', '1e0', '0x1', ' ', '0, 1', '2,1,0', '0-0,2']


RULE += ' Since round 8 a quarter of the runs carry --overwrite (the listing is judged alike).'
RULE += ' Since round 10 a family with entries spread over the home trash and both volume trash directories of one or two volumes.'


def gen(rng, n):
    scns, metas = [], []
    for i in range(n):
        tree = [['d', '/home/u', 0o755]] + scen.canary()
        td = '/home/u/.local/share/Trash'
        ents = []
        locs = rng.sample([l for l in LOCS if l != '/'], rng.randint(1, 6))
        if rng.random() < 0.3:
            locs.append(rng.choice(locs))          # the same location trashed twice
        fam = scen.suffix_family(rng)
        for k, loc in enumerate(locs):
            date = rng.choice(scen.DATES + [None, None])
            name = fam[k] if k < len(fam) else 'n%d' % k
            override = None
            if rng.random() < 0.2:
                # a second Path= line naming another place (an info file edited by hand or written by another tool): the first one counts
                decoy = rng.choice([l for l in LOCS if l != '/'])
                first = scen.TI % (scen.quote(loc), date) if date is not None else '[Trash Info]\nPath=%s\n' % scen.quote(loc)
                override = first + 'Path=%s\n' % scen.quote(decoy)
            tree += scen.entry(td, name, loc, date, rng.choice(['f', 'f', 'd']), info_override=override)
            ents.append({'name': name, 'loc': loc, 'date': date, 'k': k})
        scope = rng.choice(['/', '/a', '/a/foo', '/a/foobar', '/a/fo', '/b', '/a/', 'a', '.', '..', '/c/d', None])
        cwd = rng.choice(['/', '/a', '/a/foo']) if scope in (None, 'a', '.', '..') else '/'
        tree += [['d', '/a/foo', 0o755]] if cwd.startswith('/a') and not any(l in ('/a', '/a/foo') for l in locs) else []
        sort = rng.choice(['date', 'path', 'none', None])
        reply = rng.choice(REPLIES)
        argv = ([scope] if scope is not None else []) + (['--sort', sort] if sort else [])
        overwrite = rng.random() < 0.25           # --overwrite changes what happens at an existing destination, never the listing
        if overwrite:
            argv.insert(rng.randint(1 if scope is not None else 0, len(argv)) if rng.random() < 0.5 else len(argv), '--overwrite')
            if argv.index('--overwrite') > 0 and argv[argv.index('--overwrite') - 1] == '--sort':
                argv.remove('--overwrite')
                argv.append('--overwrite')
        step = {'cmd': 'restore', 'argv': argv, 'stdin': reply + '\n' if rng.random() < 0.9 else reply, 'listdir': rng.choice(['sorted', 'reverse', rng.randint(1, 50)])}
        scn = {'tree': tree, 'mounts': [], 'cwd': cwd, 'uid': 0, 'env': {'HOME': '/home/u', 'TRASH_VOLUMES': '/'}, 'steps': [step]}
        if cwd.startswith('/a') and rng.random() < 0.4:
            # the working directory was reached through a symbolic link and the shell says so in $PWD: the scope is the PHYSICAL
            # directory all the same (the recorded locations have their parents resolved)
            tree.append(['l', '/lnk', '/a'])
            if not any(e[1] == cwd for e in tree if e[0] == 'd'):
                tree.insert(0, ['d', cwd, 0o755])
            scn['cwd'] = '/lnk' + cwd[2:]
            scn['env']['PWD'] = '/lnk' + cwd[2:]
        scns.append(scn)
        metas.append({'ents': ents, 'scope': scope, 'cwd': cwd, 'sort': sort or 'date', 'reply': reply, 'eof': not step['stdin'].endswith('\n'),
                      'overwrite': overwrite})
    return scns, metas


def in_scope(loc, path):
    if path == '/':
        return True
    lc = [c for c in loc.split('/') if c]
    pc = [c for c in path.split('/') if c]
    return lc[:len(pc)] == pc and not path.endswith('//')


def py_int(t):
    """an independent reading of int(): optional surrounding whitespace, optional sign, digits with single underscores"""
    import re
    import unicodedata
    t = t.strip()
    m = re.fullmatch(r'([+-]?)(\d(?:_?\d)*)', t)
    if not m:
        return None
    digits = m.group(2).replace('_', '')
    return int(('-' if m.group(1) == '-' else '') + ''.join(str(unicodedata.decimal(ch)) for ch in digits))


def denote(reply, n):
    """('ok', [indices]) | ('invalid',) | ('valueerror',)"""
    out = []
    for part in reply.split(','):
        if '-' in part:
            bits = part.split('-')
            if len(bits) != 2:
                # parts are examined left to right: an earlier invalid part wins
                return ('valueerror',)
            a, b = bits
            if a == '' or b == '':
                return ('invalid',)
            ia, ib = py_int(a), py_int(b)
            if ia is None or ib is None:
                return ('invalid',)
            if ib >= ia and (ia < 0 or ib >= n):
                out.append([ia, ib])          # out of range anyway: do not enumerate a huge range
            else:
                out.append(list(range(ia, ib + 1)))
        else:
            v = py_int(part)
            if v is None:
                return ('invalid',)
            out.append([v])
    flat = [i for seq in out for i in seq]
    if any(i < 0 or i >= n for i in flat):
        return ('invalid',)
    return ('ok', flat)


def judge(run, scn, meta, res, order_hint, section='state'):
    before, o = res['before'], res['steps'][0]
    after = o['after']
    td = '/home/u/.local/share/Trash'
    case = {'scenario': scn, 'meta': {k: v for k, v in meta.items() if k != 'ents'}, 'exit': o['exit'], 'stdout': o['stdout'][-600:], 'stderr': o['stderr'][-300:]}
    run.count(section)
    scope = meta['scope']
    path = os.path.normpath(os.path.join(meta['cwd'], scope if scope is not None else ''))
    listed_want = [e for e in meta['ents'] if in_scope(e['loc'], path)]
    # parse the listing
    lines = [l for l in o['stdout'].split('\n') if l[:4].strip().isdigit() and len(l) > 5 and l[4] == ' ']
    got = []
    for l in lines:
        idx = int(l[:4])
        rest = l[5:]
        date, loc = (rest[:19], rest[20:]) if not rest.startswith('None ') else ('None', rest[5:])
        got.append((idx, date, loc))
    if [g[0] for g in got] != list(range(len(got))):
        run.fail('oracle', 'the listing is not numbered 0..n-1', case, key='bad-numbering', section=section)
        return
    want_multiset = sorted((e['loc'], (e['date'] or 'None').replace('T', ' ')) for e in listed_want)
    got_multiset = sorted((g[2], g[1]) for g in got)
    if want_multiset != got_multiset:
        run.fail('oracle', 'trash-restore does not offer exactly the entries at or below the requested directory',
                 dict(case, offered=got_multiset, expected=want_multiset, scope=path), key='wrong-scope', section=section)
        return
    # order
    if meta['sort'] == 'path':
        keys = [g[2] + g[1] for g in got]
        if keys != sorted(keys):
            run.fail('oracle', '--sort path: the listing is not ordered by path', case, key='wrong-order', section=section)
    elif meta['sort'] == 'date':
        def dk(g):
            return (g[1] != 'None', g[1])
        if [dk(g) for g in got] != sorted(dk(g) for g in got):
            run.fail('oracle', '--sort date: the listing is not ordered by date', case, key='wrong-order', section=section)
    n = len(got)
    changed = engine.changed_paths(before, after)
    if n == 0:
        if changed or o['exit'] != 0:
            run.fail('oracle', 'nothing in scope but something changed / non-zero exit', dict(case, changed=changed[:5]), key='changed-with-empty-list', section=section)
        run.nontriv(('empty-list', path))
        return
    reply = meta['reply'] if not meta['eof'] or meta['reply'] else None
    if reply is None or reply == '':
        want = ('none', 0 if reply == '' else 1)
    else:
        d = denote(reply, n)
        want = d
    if want[0] in ('none', 'invalid', 'valueerror'):
        if changed:
            run.fail('oracle', 'a reply that is empty, invalid or out of range restored/changed something', dict(case, changed=changed[:6], reply=esc(meta['reply'])),
                     key='restored-on-invalid-reply', section=section)
        exp_zero = want[0] == 'none' and want[1] == 0
        if (o['exit'] == 0) != exp_zero:
            run.fail('oracle', 'exit status for an empty/invalid reply is wrong', dict(case, reply=esc(meta['reply'])), key='wrong-exit', section=section)
        run.nontriv((want[0], esc(meta['reply']), n, meta['sort']))
        return
    # the entries printed at the chosen indices must be restored, in order, until a refusal
    idxs = want[1]
    chosen = [got[i][2] for i in idxs]
    if any(a != b and (engine.under(a, b) or engine.under(b, a)) for a in chosen for b in chosen):
        run.nontriv(('nested-selection', n))       # one chosen location inside another: the outcome depends on kinds; left to the trace tie
        return
    restored_locs = []
    exists = set(before)
    refused = False
    for i in idxs:
        loc = got[i][2]
        if loc in exists:
            if meta.get('overwrite'):
                run.nontriv(('overwrite-existing', n, meta['sort']))    # replaced, or moved inside a directory: C06's subject
                return
            refused = True
            break
        restored_locs.append(loc)
        exists.add(loc)
        # parents created
        p = os.path.dirname(loc)
        while p and p != '/':
            exists.add(p)
            p = os.path.dirname(p)
    for loc in restored_locs:
        if loc not in after:
            run.fail('oracle', 'an entry printed at a chosen index was not restored to its location', dict(case, location=loc, indices=idxs),
                     key='chosen-not-restored', section=section)
            return
    new_top = [p for p in after if p not in before and not engine.under(p, td)]
    extra = [p for p in new_top if not any(engine.under(p, l) or engine.under(l, p) for l in restored_locs)]
    if extra:
        run.fail('oracle', 'something was restored that was not printed at a chosen index', dict(case, extra=extra[:5], indices=idxs),
                 key='unchosen-restored', section=section)
    left = len(engine.entries_of(after, td))
    if left != len(meta['ents']) - len(restored_locs):
        run.fail('oracle', 'the number of entries that left the trash is not the number restored', dict(case, left=left, restored=restored_locs),
                 key='trash-count', section=section)
    if (o['exit'] != 0) != refused:
        run.fail('oracle', 'exit status does not reflect whether a selected entry was refused', dict(case, refused=refused), key='wrong-exit', section=section)
    run.nontriv(('sel', esc(meta['reply']), n, meta['sort'], refused, path == '/'))


def gen_volumes(rng, n):
    """entries of the SAME user spread over the home trash, $topdir/.Trash/$uid and $topdir/.Trash-$uid of one or two volumes (both
    volume directories can hold entries at once: .Trash was created after people had trashed into .Trash-$uid): all of them are offered,
    numbered in one list; an insecure .Trash/$uid is not."""
    scns, metas = [], []
    for i in range(n):
        tree = [['d', '/home/u', 0o755]] + scen.canary()
        vols = ['/vol1'] + (['/vol1/inner'] if rng.random() < 0.3 else [])
        ents, hidden = [], 0
        k = 0
        for v in vols:
            tree.append(['d', v, 0o755])
            state = rng.choice(['sticky', 'sticky', 'nonsticky', 'absent', 'link'])
            if state == 'sticky':
                tree.append(['d', v + '/.Trash', 0o1777])
            elif state == 'nonsticky':
                tree.append(['d', v + '/.Trash', 0o777])
            elif state == 'link':
                tree += [['d', v + '/real', 0o1777], ['l', v + '/.Trash', v + '/real']]
            for td, ok in ((v + '/.Trash/0', state == 'sticky'), (v + '/.Trash-0', True)):
                if td.endswith('/.Trash/0') and state == 'absent':
                    continue
                real = td if state != 'link' or not td.endswith('/.Trash/0') else v + '/real/0'
                for _ in range(rng.randint(0, 2)):
                    rel = rng.choice(['docs/f%d' % k, 'f%d' % k, 'docs/sub/g%d' % k])
                    date = rng.choice(scen.DATES)
                    tree += scen.entry(real, 'e%d' % k, rel, date, 'f')
                    if ok:
                        ents.append({'loc': v + '/' + rel, 'date': date})
                    else:
                        hidden += 1
                    k += 1
        for _ in range(rng.randint(0, 2)):
            loc = rng.choice(['/home/u/h%d' % k, '/vol1/docs/h%d' % k])
            date = rng.choice(scen.DATES)
            tree += scen.entry('/home/u/.local/share/Trash', 'e%d' % k, loc, date, 'f')
            ents.append({'loc': loc, 'date': date})
            k += 1
        scope = rng.choice(['/', '/vol1', '/vol1/docs', '/vol1/inner', '/home'])
        sort = rng.choice(['date', 'path', None])
        step = {'cmd': 'restore', 'argv': [scope] + (['--sort', sort] if sort else []), 'stdin': '\n', 'listdir': rng.choice(['sorted', 'reverse'])}
        scns.append({'tree': tree, 'mounts': vols, 'cwd': '/', 'uid': 0, 'env': {'HOME': '/home/u', 'TRASH_VOLUMES': ':'.join(['/'] + vols)}, 'steps': [step]})
        metas.append({'ents': ents, 'scope': scope, 'hidden': hidden})
    return scns, metas


def judge_volumes(run, scn, meta, res, section='volumes'):
    o = res['steps'][0]
    run.count(section)
    case = {'scenario': scn, 'meta': meta, 'exit': o['exit'], 'stdout': o['stdout'][-600:], 'stderr': o['stderr'][-300:]}
    lines = [l for l in o['stdout'].split('\n') if l[:4].strip().isdigit() and len(l) > 5 and l[4] == ' ']
    got = sorted((l[25:], l[5:24]) for l in lines)
    want = sorted((e['loc'], e['date'].replace('T', ' ')) for e in meta['ents'] if in_scope(e['loc'], meta['scope']))
    if [int(l[:4]) for l in lines] != list(range(len(lines))):
        run.fail('oracle', 'the listing is not numbered 0..n-1', case, key='bad-numbering', section=section)
    elif got != want:
        run.fail('oracle', 'trash-restore does not offer exactly the entries at or below the requested directory (entries spread over the home trash, '
                 '$topdir/.Trash/$uid and $topdir/.Trash-$uid)', dict(case, offered=got, expected=want), key='wrong-scope:volumes', section=section)
    elif engine.changed_paths(res['before'], o['after']):
        run.fail('oracle', 'an empty reply changed something', case, key='restored-on-invalid-reply', section=section)
    run.nontriv(('volumes', len(want), meta['hidden'] > 0, meta['scope']))


def run(run, thorough):
    fn_logic.indexes(run, thorough)
    fn_logic.scope(run, thorough)
    scns, metas = gen(run.rng, 700 if not thorough else 10000)
    out = engine.run_all(run, 'restore', scns)
    by_id = {id(s): m for s, m in zip(scns, metas)}
    jobs = []
    for scn, res in out:
        judge(run, scn, by_id[id(scn)], res, None)
        jobs.append(('select', 'x', res['steps'][0], {'scenario': scn}))
    engine.run_monitors(run, 'selection-monitor', jobs, 'the selection monitor (Coq, C13) rejects the implementation trace: a mutation although the '
                        'reply does not denote in-range indexes', 'mutation-on-invalid-reply', silent=True)
    vs, vm = gen_volumes(run.rng, 120 if not thorough else 1500)
    by_idv = {id(s): m for s, m in zip(vs, vm)}
    for scn, res in engine.run_all(run, 'restore-volumes', vs):
        judge_volumes(run, scn, by_idv[id(scn)], res)
    if out:
        run.sample({'level': 'state', 'argv': out[0][0]['steps'][0]['argv'], 'reply': esc(metas[0]['reply']), 'locations': [e['loc'] for e in metas[0]['ents']]})


def replay(run, payload):
    case = payload.get('case') or {}
    if 'args_tok' in case:
        from common import model_batch
        rep = model_batch([(case['function'], case['args_tok'])])[0]
        print('model:', rep, 'impl recorded:', case.get('impl'))
        if rep != case.get('impl'):
            run.fail('tie', 'function-level disagreement persists', case)
        return
    scn = case.get('scenario')
    if not scn:
        return
    res = sandbox.execute(scn)
    o = res['steps'][0]
    print('trash-restore', scn['steps'][0]['argv'], repr(scn['steps'][0].get('stdin')), 'cwd', scn['cwd'], 'exit', o['exit'])
    print(esc(o['stdout'][:800]))
    print(esc(o['stderr'][:300]))
    if 'hidden' in (case.get('meta') or {}):
        judge_volumes(run, scn, case['meta'], res, 'replay')
        return
    from urllib.parse import unquote
    ents = []
    for e in scn['tree']:
        if e[0] == 'f' and '/info/' in e[1] and isinstance(e[2], str):
            pv = [l[5:] for l in e[2].split('\n') if l.startswith('Path=')]
            dv = [l[13:] for l in e[2].split('\n') if l.startswith('DeletionDate=')]
            ents.append({'name': e[1].split('/info/')[1][:-10], 'loc': unquote(pv[0]), 'date': dv[0] if dv else None})
    st = scn['steps'][0]
    av = st['argv']
    scope = av[0] if av and not av[0].startswith('-') else None
    sort = av[av.index('--sort') + 1] if '--sort' in av else 'date'
    stdin = st.get('stdin') or ''
    phys = '/a' + scn['cwd'][4:] if scn['cwd'].startswith('/lnk') else scn['cwd']       # (the generator's /lnk -> /a)
    judge(run, scn, {'ents': ents, 'scope': scope, 'cwd': phys, 'sort': sort, 'reply': stdin.rstrip('\n') if stdin.endswith('\n') else stdin,
                     'eof': not stdin.endswith('\n'), 'overwrite': '--overwrite' in av}, res, None)
    engine.run_monitors(run, 'selection-monitor', [('select', 'x', o, {'scenario': scn})], 'selection monitor rejects', 'mutation-on-invalid-reply', silent=True)
