"""Function-level cores for the decision logic: fnmatch, reply grammar, scope, y/N, older_than."""
import datetime
import fnmatch
import itertools
import sys
import warnings

from common import tok_s, tok_z, tok_b, tok_opt, arg_dt, REPO
from fnlevel import compare, words


def _repo():
    if REPO not in sys.path:
        sys.path.insert(0, REPO)


# ------------------------------------------------------------------ fnmatch (C12)
def glob(run, thorough):
    _repo()
    from trashcli.rm.filter import Filter
    warnings.simplefilter('ignore')
    rng = run.rng
    palpha = ['a', 'b', '*', '?', '[', ']', '!', '-', '\\', '^']
    salpha = ['a', 'b', '-', ']', '!', '\\', '^', '\n']
    pats = list(words(palpha, 4 if not thorough else 5, 1))
    subs = list(words(salpha, 2 if not thorough else 3))
    cases = [(s, p) for p in pats for s in subs]
    # longer random patterns biased to bracket quirks, and non-ASCII subjects
    frag = ['[a-c]', '[!a-c]', '[c-a]', '[!c-a]', '[]]', '[!]]', '[]-a]', '[a-]', '[-a]', '[a-c-e]', '[a-b-]', '[--0]', '[!-]', '[!]',
            '[]', '[', ']', '*', '**', '?', 'a', 'b', 'é', '[é-ü]', '[a-bx-z]', '[b-ad-c]', '[z-ab]', '[\\]', '[\\-a]', '[^a]', '[[a]',
            '[a&&b]', '[~~]', '[||]', '[a-a]', '[!b-ad-cx]', '.', '+', '(', ')', '|', '$', '{', '[!!]', '[!a-]', '[a-c-]', '[a-cd-f-h]']
    sfrag = ['a', 'b', 'c', 'd', 'e', 'x', 'z', '-', ']', '[', '!', '\\', '^', '&', '~', '|', 'é', 'ü', '\n', '.', '+', '0', '']
    for _ in range(20000 if not thorough else 200000):
        p = ''.join(rng.choice(frag) for _ in range(rng.randint(1, 3)))
        s = ''.join(rng.choice(sfrag) for _ in range(rng.randint(0, 3)))
        cases.append((s, p))

    def py(name, pat):
        return tok_b(fnmatch.fnmatchcase(name, pat))

    def k(a, r):
        p = a[1]
        return ('glob', r, '[' in p, '*' in p, '?' in p, '-' in p, '!' in p, min(len(a[0]), 2))
    compare(run, 'fnmatchcase', 'fnmatchcase', py, cases, (tok_s, tok_s), k)
    # trash-rm's Filter: subject = full path iff the pattern starts with '/', else the basename
    fcases = []
    paths = ['/a', '/a/b', '/x/a', '/a/b/c', '/b', '/A', '/dir/a*', '/dir/[a]', '/a/', '/']
    fpats = ['a', 'b', '*', '/a', '/a/*', '/*/a', '/*', '?', '[ab]', 'A', '/a/b', 'a*', '*a', '/x/?', '[a', '/']
    for p in fpats:
        for o in paths:
            fcases.append((o, p))
    import os

    def pyf(o, p):
        return tok_b(Filter(p).matches(o))

    def subj(o, p):
        return o if p[0] == '/' else os.path.basename(o)
    compare(run, 'rm_filter', 'fnmatchcase', lambda s, p, o: pyf(o, p),
            [(subj(o, p), p, o) for o, p in fcases], (tok_s, tok_s), lambda a, r: ('rmf', r, a[1][0] == '/'))


# ------------------------------------------------------------------ reply grammar (C13)
def indexes(run, thorough):
    _repo()
    from trashcli.restore.restore_asking_the_user import parse_indexes, InvalidEntry
    rng = run.rng
    alpha = ['0', '1', '2', '9', ',', '-', ' ', '+', '_', 'x']
    replies = list(words(alpha, 4 if not thorough else 5, 1))
    cases = [(r, n) for r in replies for n in ((1, 3) if not thorough else (1, 2, 3, 4))]
    extra = ['0-99999999999', '5-2', '2-0', '0-0', '00', '0_0', '1__0', ' 1 ', '\t1\n', '+1', '-1', '1-', '-', ',', '1,,2', '1-2-3', '1-2-3-4',
             '٣', '1٣', '１', '0-٢', '1 2', '0x1', '1e1', '1.0', '', '0,0', '2,1,0', '0-2,1', '0-1,1-2', '１-２', ' 0 - 1 ', '0 -1', '+0-+1',
             '0-+2', '1_0', '9' * 30, '0-' + '9' * 30, '\xa01', '1 ', ' 1-2 ', '0,1-2-3', 'x,1-2-3', '1-2-3,x', '3,1-2-3']
    for e in extra:
        for n in (1, 3, 12):
            cases.append((e, n))
    for _ in range(3000 if not thorough else 30000):
        k = rng.randint(1, 4)
        parts = []
        for _ in range(k):
            t = rng.random()
            a, b = rng.randint(0, 6), rng.randint(0, 6)
            if t < 0.4:
                parts.append(str(a))
            elif t < 0.8:
                parts.append('%d-%d' % (a, b))
            else:
                parts.append(rng.choice(['', ' ', 'x', '-', '1-', '-2', '1-2-3', ' 3', '+2', '0_1']))
        cases.append((','.join(parts), rng.randint(1, 7)))

    def py(reply, n):
        try:
            seqs = parse_indexes(reply, n)
            return 'sel:' + ','.join(str(i) for i in seqs.all_indexes())
        except InvalidEntry:
            return 'invalid'
        except ValueError:
            return 'valueerror'

    def kf(a, r):
        return ('idx', r.split(':')[0], a[0].count(','), a[0].count('-') if a[0].count('-') < 3 else 3, len(r) > 5)
    compare(run, 'parse_indexes', 'parse_indexes', py, cases, (tok_s, tok_z), kf)

    def pyint(t):
        try:
            return 'S' + tok_z(int(t))
        except ValueError:
            return 'N'
    ints = list(words(['0', '1', '9', ' ', '+', '-', '_', 'x', '٣', '\n'], 4 if not thorough else 5))
    compare(run, 'py_int', 'py_int', pyint, [(t,) for t in ints], (tok_s,), lambda a, r: ('int', r[0], len(a[0])), exhaustive=True)


def unicode_tables(run, thorough):
    """the two tables embedded in the model against the running interpreter, for ALL code points"""
    import unicodedata
    from common import model_batch
    cps = range(0x110000) if thorough else itertools.chain(range(0, 0x3000), range(0x3000, 0x110000, 5), range(0x1D7C0, 0x1D800),
                                                             range(0x10000, 0x12000))
    cases = [(c,) for c in cps]

    def py(c):
        ch = chr(c)
        if ch.isdecimal():
            return 'Sn%d' % unicodedata.decimal(ch)
        return 'N'
    from common import tok_n
    compare(run, 'uni_digit', 'uni_digit', py, cases, (tok_n,), lambda a, r: ('ud', r) if r != 'N' else None,
            exhaustive=thorough)
    # y/N rules over every single code point (str.lower special cases)
    _repo()
    from trashcli.empty.parse_reply import parse_reply
    from trashcli.put.user import parse_user_reply, user_replied_yes
    cps2 = [c for (c,) in cases if not (0xD800 <= c <= 0xDFFF)]
    compare(run, 'parse_reply_1cp', 'parse_reply', lambda s: tok_b(parse_reply(s)), [(chr(c),) for c in cps2], (tok_s,),
            lambda a, r: ('pr1', r), exhaustive=thorough)
    compare(run, 'parse_user_reply_1cp', 'parse_user_reply', lambda s: tok_b(parse_user_reply(s) == user_replied_yes),
            [(chr(c),) for c in cps2], (tok_s,), lambda a, r: ('pur1', r), exhaustive=thorough)
    # is_py_space via py_int: int(c + '1') succeeds iff c is whitespace (or a digit / sign)
    def pyint(t):
        try:
            return 'S' + tok_z(int(t))
        except ValueError:
            return 'N'
    compare(run, 'py_int_space_1cp', 'py_int', pyint, [(chr(c) + '1',) for c in cps2], (tok_s,),
            lambda a, r: ('sp', r) if r != 'N' else None, exhaustive=thorough)


def replies(run, thorough):
    _repo()
    from trashcli.empty.parse_reply import parse_reply
    from trashcli.put.user import parse_user_reply, user_replied_yes
    alpha = ['y', 'Y', 'n', 'N', 'e', 's', ' ', '\n', 'ý', 'Ÿ', '1', '\t', 'İ', 'ｙ']
    ws = list(words(alpha, 2 if not thorough else 3))
    compare(run, 'parse_reply', 'parse_reply', lambda s: tok_b(parse_reply(s)), [(w,) for w in ws], (tok_s,),
            lambda a, r: ('pr', r, a[0][:1]), exhaustive=True)
    compare(run, 'parse_user_reply', 'parse_user_reply', lambda s: tok_b(parse_user_reply(s) == user_replied_yes),
            [(w,) for w in ws], (tok_s,), lambda a, r: ('pur', r, a[0][:1]), exhaustive=True)


# ------------------------------------------------------------------ scope (C13)
def scope(run, thorough):
    _repo()
    from trashcli.restore.trashed_file import TrashedFile
    from trashcli.restore.run_restore_action import original_location_matches_path
    ws = list(words('/ab', 4 if not thorough else 5))
    cases = [(o, p) for o in ws for p in ws]

    def py(o, p):
        a = TrashedFile(o, None, 'i', 'f').original_location_matches_path(p)
        b = original_location_matches_path(o, p)
        return tok_b(a) if a == b else 'differ'
    compare(run, 'matches_path', 'matches_path', py, cases, (tok_s, tok_s), lambda a, r: ('mp', r, a[1] == '/', a[0] == a[1], a[0].startswith(a[1])),
            exhaustive=True)
    import os
    ws2 = [w for w in words('/.a', 4) if not w.startswith('-')]
    cwds = ['/', '/a', '/a/b', '//a']

    def pys(c, a):
        from trashcli.restore.restore_arg_parser import RestoreArgParser
        return tok_s(RestoreArgParser().parse_restore_args(['trash-restore'] + ([a] if a else []), c).path)
    compare(run, 'restore_scope', 'restore_scope', pys, [(c, a) for c in cwds for a in ws2], (tok_s, tok_s), lambda a, r: ('rs', r), exhaustive=True)


# ------------------------------------------------------------------ older_than (C10)
def older(run, thorough):
    _repo()
    from trashcli.empty.older_than import older_than
    rng = run.rng
    nows = [datetime.datetime(2024, 3, 1, 0, 0, 0), datetime.datetime(2024, 2, 29, 23, 59, 59, 999999), datetime.datetime(2000, 1, 1, 12, 0, 0, 1),
            datetime.datetime(1, 1, 2, 0, 0, 0), datetime.datetime(9999, 12, 31, 23, 59, 59), datetime.datetime(1970, 1, 1), datetime.datetime(2100, 3, 1, 6, 7, 8)]
    days = [0, 1, 2, 7, 28, 29, 30, 31, 365, 366, 10 ** 4, 730000, 10 ** 6, 3652058, 3652059, 999999999, 10 ** 9, 10 ** 10, -1, -366, -999999999, -10 ** 9]
    deltas = [datetime.timedelta(0), datetime.timedelta(microseconds=1), datetime.timedelta(seconds=1), datetime.timedelta(days=1),
              datetime.timedelta(hours=1), datetime.timedelta(days=365)]
    cases = []
    for now in nows:
        for d in days:
            try:
                lim = now - datetime.timedelta(days=d)
            except OverflowError:
                lim = None
            cands = [datetime.datetime(1, 1, 1), datetime.datetime(9999, 12, 31, 23, 59, 59), now, datetime.datetime(2024, 2, 29, 0, 0, 0)]
            if lim is not None:
                for dl in deltas:
                    for sg in (1, -1):
                        try:
                            cands.append(lim + sg * dl)
                        except OverflowError:
                            pass
            for c in cands:
                cases.append((d, now, c))
    for _ in range(3000 if not thorough else 40000):
        now = datetime.datetime(rng.randint(1, 9999), rng.randint(1, 12), rng.randint(1, 28), rng.randrange(24), rng.randrange(60), rng.randrange(60), rng.randrange(10 ** 6))
        de = datetime.datetime(rng.randint(1, 9999), rng.randint(1, 12), rng.randint(1, 28), rng.randrange(24), rng.randrange(60), rng.randrange(60))
        cases.append((rng.choice(days + [rng.randint(0, 800000)]), now, de))

    def py(d, now, de):
        try:
            return 'S' + tok_b(older_than(d, now, de))
        except OverflowError:
            return 'N'
    compare(run, 'older_than', 'older_than', py, cases, (tok_z, arg_dt, arg_dt),
            lambda a, r: ('old', r, a[0] if a[0] in (0, 1, 2, 7, 365, 366) else (a[0] > 10 ** 6), a[1].microsecond != 0))
    # datetime < datetime
    dts = [c[2] for c in cases[:1500]] + [c[1] for c in cases[:300]]
    pairs = [(rng.choice(dts), rng.choice(dts)) for _ in range(4000)] + [(d, d) for d in dts[:200]]
    compare(run, 'dt_lt', 'dt_lt', lambda a, b: tok_b(a < b), pairs, (arg_dt, arg_dt), lambda a, r: ('lt', r, a[0].year == a[1].year, a[0].date() == a[1].date()))
