"""C18 - trash-put acts on the named entry itself and never follows a final symlink."""
import os

import engine
import putlib
import sandbox
import scen
from common import esc

RULE = ("trace level: exact correspondence of every run with the Coq model; state level: symbolic links of every kind (to a file, to a "
        "directory, dangling, to another link; relative and absolute targets; target inside/outside the link's volume) written with 0-3 "
        "trailing slashes, reached through other links, located on another volume than their target, are trashed and then restored: the "
        "payload under files/ must be a symlink with the same target string, the target's subtree must be unchanged, the recorded Path "
        "must be realpath(parent)/name of the LINK, and trash-restore must recreate the same link. A link written with a trailing slash "
        "whose target is not an existing directory does not exist for the kernel: an honest failure that touches nothing is accepted. "
        "distinct = (link kind, target kind, slashes, via link?, cross volume?, outcome).")
ASSUMPTIONS = ["'dangling/' and 'link-to-file/' name nothing for the kernel (ENOENT/ENOTDIR): failing without touching anything satisfies the property"]


def gen(rng, n):
    scns, metas = [], []
    for i in range(n):
        lay = scen.Layout(rng, nested=False, home_on_own_volume=False)
        for v in lay.all_vols:          # a usable trash directory on every volume: .Trash-uid absent (creatable) or a directory
            if lay.top[v][1] == 'file':
                lay.top[v][1] = 'absent'
                lay.tree = [e for e in lay.tree if e[1] != lay.top2(v)]
        nodes = scen.canary() + [['d', lay.home + '/tdir', 0o755], ['f', lay.home + '/tdir/in', 'in'], ['f', lay.home + '/tfile', 'tfile']]
        vol = lay.vols[0]
        nodes += [['d', vol + '/tdir2', 0o755], ['f', vol + '/tdir2/in2', 'in2']]
        # (also a directory on the root volume whose name merely BEGINS with the volume's name: /vol1x next to /vol1)
        where = rng.choice([lay.home, lay.home + '/sub', vol, vol + '/sub', vol + 'x', vol + 'x/sub'])
        nodes.append(['d', where, 0o755])
        tk = rng.choice(['file', 'dir', 'dangling', 'link', 'dir_other_vol', 'above', 'rodir'])
        # 'above': the link points to a directory that CONTAINS the trash directory the link goes to (the home directory, the volume's
        # top directory, the root, '..'): only somebody who follows the link could think the entry contains its own destination
        target = {'file': lay.home + '/tfile', 'dir': lay.home + '/tdir', 'dangling': 'no/where', 'link': 'l2',
                  'dir_other_vol': vol + '/tdir2',
                  'above': rng.choice([lay.home, '/', vol, '..', '../..']),
                  'rodir': '/canary/rodir'}[tk]          # a directory its owner may not write (0555): nothing about it changes, not even its mode
        if tk in ('file', 'dir') and rng.random() < 0.4:
            target = os.path.relpath(target, where)
        name = rng.choice(['lnk', 'l n', 'l%41', 'é'])
        nodes.append(['l', where + '/' + name, target])
        if tk == 'link':
            nodes.append(['l', where + '/l2', lay.home + '/tdir'])
        if rng.random() < 0.15:
            # the link's name is already taken in files/ by a payload that has no .trashinfo - a directory, or a link to one: the new
            # entry gets another name, it is not moved INTO what is there
            for t0 in [lay.home_trash] + [lay.top2(vv) for vv in lay.all_vols if lay.top[vv][1] in ('dir', 'absent')]:
                if rng.random() < 0.5:
                    nodes += [['d', t0 + '/files/' + name, 0o755], ['f', t0 + '/files/' + name + '/old', 'left over'], ['d', t0 + '/info', 0o700]]
                else:
                    nodes += [['l', t0 + '/files/' + name, '/canary/dir'], ['d', t0 + '/info', 0o700]]
        elif rng.random() < 0.15:
            # an earlier entry of the same name whose payload is a link that dangles where it now lies (a relative link, trashed before):
            # os.path.exists does not see the payload, the exclusive create of the .trashinfo is what keeps the two apart
            for t0 in [lay.home_trash] + [lay.top2(vv) for vv in lay.all_vols if lay.top[vv][1] in ('dir', 'absent')]:
                nodes += scen.entry(t0, name, '/elsewhere/old/' + name, '2030-01-01T00:00:00', 'l', data='target-next-to-where-it-was.txt')
        slashes = '/' * rng.choice([0, 0, 1, 2, 3])
        via = rng.random() < 0.25
        if via and rng.random() < 0.4 and where.count('/') >= 2:
            # the symbolic link is higher up: the parent of the named entry is a plain directory reached THROUGH a link
            nodes.append(['l', '/via2', os.path.dirname(where)])
            arg = '/via2/' + os.path.basename(where) + '/' + name + slashes
        elif via:
            nodes.append(['l', '/via', where])
            arg = '/via/' + name + slashes
        else:
            arg = where + '/' + name + slashes
        cwd = rng.choice(['/', where])
        if cwd == where and not via and rng.random() < 0.5:
            arg = rng.choice(['', './']) + name + slashes
        elif not via and rng.random() < 0.25:
            # the link named through a '..' component (cd sub; trash-put ../link/): '..' is resolved lexically, the link never followed
            nodes.append(['d', where + '/subdir', 0o755])
            if rng.random() < 0.5:
                cwd, arg = where + '/subdir', '../' + name + slashes
            else:
                arg = where + '/subdir/../' + name + slashes
        steps = [{'cmd': 'put', 'argv': rng.choice([[], [], ['-f'], ['-v']]) + ['--', arg], 'now': [2024, 5, 6, 7, 8, 9, 0]},
                 {'cmd': 'restore', 'argv': ['/'], 'stdin': '0\n'}]
        logical = None
        if cwd == where and not via and not arg.startswith('/') and '..' not in arg and rng.random() < 0.4:
            # the working directory was reached through a symbolic link and $PWD says so; trash-restore without an argument offers what was
            # trashed from the directory one is in - the physical one, where the recorded locations are
            nodes.append(['l', '/pwdlink', where])
            logical = '/pwdlink'
            steps[1] = {'cmd': 'restore', 'argv': [], 'stdin': '0\n'}
        scns.append(lay.scenario(steps, cwd=logical or cwd, extra=nodes))
        if logical:
            scns[-1]['env']['PWD'] = logical
        metas.append({'link': where + '/' + name, 'target': target, 'tk': tk, 'slashes': len(slashes), 'via': via, 'where': where,
                      'cross': tk == 'dir_other_vol' or (where.startswith(vol) and tk in ('file', 'dir')), 'arg': arg, 'name': name})
    return scns, metas


def judge(run, scn, meta, res, section='state'):
    before = res['before']
    put, rst = res['steps'][0], res['steps'][1]
    after = put['after']
    case = {'scenario': scn, 'meta': {k: (esc(v) if isinstance(v, str) else v) for k, v in meta.items()}, 'put_exit': put['exit'],
            'stderr': put['stderr'][-500:]}
    run.count(section)
    link = meta['link']
    # everything except the link itself and the trash directories must be unchanged (the target in particular)
    tds = engine.trash_dirs_in(after)
    ch = [p for p in engine.changed_paths(before, after) if p != link and not any(engine.under(p, td) or engine.under(td, p) for td in tds)]
    if ch:
        run.fail('oracle', "trashing a symbolic link changed something other than the link (its target?)",
                 dict(case, changed=[(esc(p), before.get(p), after.get(p)) for p in ch[:6]]), key='target-touched', section=section)
        return
    # what was in the trash before is still there, whole
    for td0 in engine.trash_dirs_in(before):
        ea0 = engine.entries_of(after, td0)
        for nm0, e0 in engine.entries_of(before, td0).items():
            if e0['info'] is not None and e0['payload'] is not None and ea0.get(nm0) != e0:
                run.fail('oracle', 'trashing a link damaged an entry that was already in the trash', dict(case, trash_dir=td0, name=esc(nm0)),
                         key='old-entry-damaged', section=section)
                return
    kernel_says_absent = meta['slashes'] > 0 and meta['tk'] in ('file', 'dangling')
    pairs, strays, orphans = putlib.new_trash_items(before, after)
    forced = '-f' in scn['steps'][0]['argv'][:scn['steps'][0]['argv'].index('--')]
    if kernel_says_absent and forced and put['exit'] == 0 and not pairs:
        # "link/" does not exist for the kernel when the link does not lead to a directory; -f ignores what does not exist
        if strays or orphans or link not in after:
            run.fail('oracle', 'trash-put -f of a non-existent "link/" left traces', case, key='failure-with-traces', section=section)
        run.nontriv((meta['tk'], meta['slashes'], meta['via'], meta['cross'], 'absent-for-kernel-forced'))
        return
    if put['exit'] != 0:
        if kernel_says_absent:
            if pairs or strays or orphans or link not in after:
                run.fail('oracle', 'a failing trash-put of link/ left traces', case, key='failure-with-traces', section=section)
            run.nontriv((meta['tk'], meta['slashes'], meta['via'], meta['cross'], 'absent-for-kernel'))
            return
        run.fail('oracle', 'trash-put could not trash a symbolic link', case, key='link-not-trashed', section=section)
        return
    if len(pairs) != 1 or strays or orphans:
        run.fail('oracle', 'trashing a link did not produce exactly one complete entry', dict(case, pairs=pairs, strays=strays, orphans=orphans),
                 key='not-one-entry', section=section)
        return
    td, name = pairs[0]
    node = after.get(td + '/files/' + name)
    if node is None or node[0] != 'l' or node[2] != meta['target'] or link in after:
        run.fail('oracle', 'the payload is not the symbolic link itself (same target string), or the link is still at its origin',
                 dict(case, payload=node, want_target=esc(meta['target'])), key='link-followed', section=section)
        return
    info = engine.entries_of(after, td)[name]['info']
    from urllib.parse import unquote_to_bytes
    pv = [l[5:] for l in info.split(b'\n') if l.startswith(b'Path=')]
    loc = os.fsdecode(unquote_to_bytes(pv[0])) if pv else None
    want = engine.physical(before, meta['where'] + '/x')[:-2] + '/' + meta['name']
    top = None
    for m in sorted(scn['mounts'], key=len, reverse=True):
        if engine.under(td, m):
            top = m
            break
    absloc = loc if loc is None or loc.startswith('/') else ((top or '') + '/' + loc if top != '/' else '/' + loc)
    if absloc != want:
        run.fail('oracle', "the recorded original location is not realpath(parent)/name of the link",
                 dict(case, recorded=esc(loc or ''), want=esc(want)), key='wrong-location', section=section)
    # restore recreates the same link
    fin = rst['after']
    back = fin.get(want)
    if rst['exit'] != 0 or back is None or back[0] != 'l' or back[2] != meta['target']:
        run.fail('oracle', 'trash-restore did not recreate the same symbolic link', dict(case, restored=back, restore_exit=rst['exit'],
                 restore_stderr=rst['stderr'][-300:], listing=rst['stdout'][-300:]), key='link-not-restored', section=section)
    run.nontriv((meta['tk'], meta['slashes'], meta['via'], meta['cross'], 'trashed'))


def run(run, thorough):
    scns, metas = gen(run.rng, 400 if not thorough else 6000)
    out = engine.run_all(run, 'put+restore', scns)
    by_id = {id(s): m for s, m in zip(scns, metas)}
    for scn, res in out:
        judge(run, scn, by_id[id(scn)], res)
    # several names for one thing in ONE invocation: a link together with its target, two links to the same target, a chain.  Each
    # argument names its own directory entry; every one of them must be trashed (as a link where it is a link), none skipped
    import itertools
    tog = []
    for tk, order, n in itertools.product(('file', 'dir', 'dangling'), ('link-first', 'target-first', 'two-links', 'chain'), (0, 1)):
        home = '/home/u'
        nodes = scen.canary() + [['d', home + '/w', 0o755], ['f', home + '/w/tfile', 'tfile'], ['d', home + '/w/tdir', 0o755], ['f', home + '/w/tdir/in', 'in']]
        target = {'file': home + '/w/tfile', 'dir': home + '/w/tdir', 'dangling': home + '/w/none'}[tk]
        tspell = target if n == 0 else os.path.basename(target)
        nodes += [['l', home + '/w/l1', tspell], ['l', home + '/w/l2', tspell if order != 'chain' else 'l1']]
        if order == 'link-first':
            args = [home + '/w/l1'] + ([target] if tk != 'dangling' else [home + '/w/l2'])
        elif order == 'target-first':
            args = ([target] if tk != 'dangling' else [home + '/w/l2']) + [home + '/w/l1']
        else:
            args = [home + '/w/l1', home + '/w/l2']
        tog.append(({'tree': nodes, 'mounts': [], 'cwd': home + '/w', 'uid': 1000, 'env': {'HOME': home, 'TRASH_VOLUMES': '/'},
                     'steps': [{'cmd': 'put', 'argv': ['--'] + args, 'now': [2024, 5, 6, 7, 8, 9, 0]}]}, args, target, tk))
    outt = engine.run_all(run, 'together', [s for s, a, t, k in tog])
    byt = {id(s): (a, t, k) for s, a, t, k in tog}
    for scn, res in outt:
        args, target, tk = byt[id(scn)]
        judge_together(run, scn, res, args, target, tk)
    # the known finding (shared with C01): '..' after a symlinked directory
    known = {'tree': [['d', '/home/u', 0o755], ['d', '/other/dir', 0o755], ['f', '/other/x', 'theirs'], ['f', '/home/u/x', 'mine'],
                      ['l', '/home/u/link', '/other/dir']], 'mounts': [], 'cwd': '/home/u', 'uid': 0,
             'env': {'HOME': '/home/u', 'TRASH_VOLUMES': '/'},
             'steps': [{'cmd': 'put', 'argv': ['--', 'link/../x'], 'now': [2024, 5, 6, 7, 8, 9, 0]}]}
    r = sandbox.execute(known)
    run.count('known-finding-probe')
    a = r['steps'][0]['after']
    if '/other/x' in a and '/home/u/x' not in a:
        run.fail('oracle', "trash-put link/../x acted on ./x, not on the entry the argument names", {'scenario': known},
                 key='lexical-dotdot-after-symlink', section='known-finding-probe')
    if out:
        run.sample({'level': 'state', 'arg': esc(metas[0]['arg']), 'target': esc(metas[0]['target']), 'kind': metas[0]['tk']})


def judge_together(run, scn, res, args, target, tk, section='together-state'):
    before, o = res['before'], res['steps'][0]
    after = o['after']
    run.count(section)
    left = [a for a in args if a in after]
    pairs, strays, orphans = putlib.new_trash_items(before, after)
    run.nontriv(('together', tk, tuple(os.path.basename(a) for a in args), o['exit'], len(pairs)))
    if left or o['exit'] != 0 or len(pairs) != len(args) or strays or orphans:
        run.fail('oracle', 'several names of one thing given in one invocation: not every named entry was trashed',
                 {'scenario': scn, 'still_there': left, 'exit': o['exit'], 'new_entries': pairs, 'stderr': o['stderr'][-300:]},
                 key='argument-skipped', section=section)
    if target not in args and sandbox.subtree(after, target) != sandbox.subtree(before, target):
        run.fail('oracle', 'the target of the links was touched', {'scenario': scn}, key='target-touched', section=section)


def replay(run, payload):
    case = payload.get('case') or {}
    scn = case.get('scenario')
    if not scn:
        return
    res = sandbox.execute(scn)
    for st, o in zip(scn['steps'], res['steps']):
        print(st['cmd'], [esc(a) for a in st['argv']], 'exit', o['exit'], esc(o['stderr'][:300]))
    meta = case.get('meta')
    if meta and len(scn['steps']) == 2:
        def un(v):
            if isinstance(v, str) and v.startswith('cp:'):
                return ''.join(chr(int(h, 16)) for h in v[3:].split('.'))
            return v
        judge(run, scn, {k: un(v) for k, v in meta.items()}, res)
    elif scn.get('cwd') == '/home/u/w' and len(scn['steps']) == 1 and scn['steps'][0]['cmd'] == 'put':
        # the "several names of one thing" family: everything is in the scenario
        args = scn['steps'][0]['argv'][1:]
        tgt = [e[2] for e in scn['tree'] if e[0] == 'l' and e[1] == '/home/u/w/l1']
        target = os.path.normpath(os.path.join('/home/u/w', tgt[0])) if tgt else '/home/u/w/none'
        judge_together(run, scn, res, args, target, '?', 'replay')
