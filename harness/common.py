"""Shared plumbing of the checks: model driver access, value encoding, results, evidence,
known findings.  Runs under /venv/bin/python (the interpreter the repository's suite uses)."""
import hashlib
import json
import os
import random
import subprocess
import sys
import tempfile
import time

VERIF = os.path.dirname(os.path.dirname(os.path.abspath(__file__)))
REPO = os.environ.get('VERIF_REPO', '/repo')
DRIVER = os.path.join(VERIF, 'driver', 'modelrun')
NCPU = min(16, os.cpu_count() or 4)


# ---------------------------------------------------------------- value encoding (see driver/main.ml)
def tok_s(s):
    if isinstance(s, (bytes, bytearray)):
        return 's' + '.'.join('%x' % b for b in s)
    return 's' + '.'.join('%x' % ord(c) for c in s)


def tok_n(i):
    return 'n%d' % i


def tok_z(i):
    return 'z%d' % i


def tok_b(b):
    return 'b1' if b else 'b0'


def tok_l(items):
    if not items:
        return 'l-'
    return 'l' + ','.join(tok_s(x)[1:] for x in items)


def tok_opt(x, f=tok_s):
    return 'N' if x is None else 'S' + f(x)


def tok_dt(d):
    """a datetime.datetime result"""
    return 'd%d-%d-%d-%d-%d-%d-%d' % (d.year, d.month, d.day, d.hour, d.minute, d.second, d.microsecond)


def arg_dt(d):
    """a datetime passed as argument (ASCII str 'Y-M-D-h-m-s-us')"""
    return tok_s('%d-%d-%d-%d-%d-%d-%d' % (d.year, d.month, d.day, d.hour, d.minute, d.second, d.microsecond))


def untok_s(t):
    """'s61.62' -> 'ab' (code points)"""
    body = t[1:]
    if body == '':
        return ''
    return ''.join(chr(int(h, 16)) for h in body.split('.'))


def untok_l(t):
    body = t[1:]
    if body == '-':
        return []
    return [untok_s('s' + x) for x in body.split(',')]


# ---------------------------------------------------------------- running the extracted model
def model_batch(requests, shards=None):
    """requests: list of (func, [tokens]) -> list of reply strings (same order)."""
    if not requests:
        return []
    if not os.path.exists(DRIVER):
        raise RuntimeError('model driver not built: run `make -C %s setup`' % VERIF)
    n = len(requests)
    if shards is None:
        shards = 1 if n < 4000 else min(NCPU, (n + 3999) // 4000)
    chunks = [requests[i::shards] for i in range(shards)]
    procs = []
    for ch in chunks:
        data = ''.join(f + ''.join('\t' + a for a in args) + '\n' for f, args in ch).encode('ascii')
        inf = tempfile.TemporaryFile()
        inf.write(data)
        inf.seek(0)
        outf = tempfile.TemporaryFile()
        p = subprocess.Popen([DRIVER], stdin=inf, stdout=outf, stderr=subprocess.PIPE)
        procs.append((p, inf, outf, len(ch)))
    outs = []
    for p, inf, outf, cnt in procs:
        _, err = p.communicate()
        outf.seek(0)
        lines = outf.read().decode('ascii').split('\n')
        if lines and lines[-1] == '':
            lines.pop()
        if p.returncode != 0 or len(lines) != cnt:
            raise RuntimeError('model driver failed (rc=%s, %d/%d replies): %s'
                               % (p.returncode, len(lines), cnt, err.decode('utf-8', 'replace')[-400:]))
        outs.append(lines)
        inf.close()
        outf.close()
    res = [None] * n
    for si, lines in enumerate(outs):
        for k, line in enumerate(lines):
            res[si + k * shards] = line
    return res


# ---------------------------------------------------------------- results of one check run
class Run:
    """Accumulates what one check run did; turned into evidence + verdict at the end."""

    def __init__(self, prop, tier, seed):
        self.prop = prop
        self.tier = tier
        self.seed = seed
        self.rng = random.Random(seed * 1000003 + int(hashlib.sha1(prop.encode()).hexdigest()[:8], 16))
        self.t0 = time.time()
        self.evaluations = 0
        self.nontrivial = set()        # distinct non-trivial case keys
        self.samples = []
        self.sections = {}             # name -> dict of counts
        self.failures = []             # dicts: {kind: 'tie'|'oracle'|'proof', what, case, key}
        self.notes = []
        self.exhaustive = []

    def count(self, section, n=1, key='cases'):
        d = self.sections.setdefault(section, {})
        d[key] = d.get(key, 0) + n
        if key == 'cases':
            self.evaluations += n

    def nontriv(self, key):
        def freeze(x):                      # keys rebuilt from a replay file carry lists where the generators use tuples
            if isinstance(x, (list, tuple)):
                return tuple(freeze(y) for y in x)
            if isinstance(x, dict):
                return tuple(sorted((k, freeze(v)) for k, v in x.items()))
            return x
        self.nontrivial.add(freeze(key))

    def sample(self, s, limit=6):
        if len(self.samples) < limit:
            self.samples.append(s)

    def fail(self, kind, what, case, key=None, section=None):
        self.failures.append({'kind': kind, 'what': what, 'case': case, 'key': key, 'section': section})

    def budget_left(self, total_s):
        return total_s - (time.time() - self.t0)


def jdefault(x):
    """what JSON cannot carry: bytes travel as {'__b': hex} (sandbox.build_tree reads that back), the rest as its repr"""
    if isinstance(x, (bytes, bytearray)):
        return {'__b': bytes(x).hex()}
    if isinstance(x, (set, frozenset)):
        return sorted(x, key=repr)
    return repr(x)


def jdump(obj):
    return json.dumps(obj, ensure_ascii=True, sort_keys=True, default=jdefault)


def unesc(s):
    """inverse of esc (for replay files)"""
    if isinstance(s, str) and s.startswith('hex:'):
        try:
            return bytes.fromhex(s[4:])
        except ValueError:
            return s
    if isinstance(s, str) and s.startswith('cp:'):
        try:
            return ''.join(chr(int(h, 16)) for h in s[3:].split('.')) if s[3:] else ''
        except ValueError:
            return s
    return s


def esc(s):
    """printable rendering of a str/bytes for evidence and replays"""
    if isinstance(s, (bytes, bytearray)):
        return 'hex:' + bytes(s).hex()
    try:
        s.encode('utf-8')
        if all(32 <= ord(c) < 127 for c in s):
            return s
    except UnicodeEncodeError:
        pass
    return 'cp:' + '.'.join('%x' % ord(c) for c in s)
