"""Entry point of every check:  ./check Cxx [--tier quick|thorough] [--replay FILE]

   P  proof     : build coq/theories/Props/Cxx.v (and its cone), parse Print Assumptions
   T  tie       : correspondence between the Coq model (extracted) and /repo's working tree
   O  oracle    : the property's own statement evaluated on what the implementation did
   S  search    : on a broken P/T, look for a concrete failing input with O
   verdict, known findings, evidence/Cxx.json, replay files."""
import fcntl
import glob
import hashlib
import importlib
import json
import os
import re
import subprocess
import sys
import time
import traceback

HERE = os.path.dirname(os.path.abspath(__file__))
sys.path.insert(0, HERE)
from common import VERIF, REPO, Run, jdump, jdefault  # noqa: E402

sys.dont_write_bytecode = True
COQ = os.path.join(VERIF, 'coq')
ALLOWED_AXIOMS = set()      # the development is meant to be closed under the global context
FORBIDDEN = re.compile(r'\b(Admitted|admit|Axiom|Axioms|Parameter|Parameters|Conjecture|Hypothesis|Variable)\b'
                       r'|Unset\s+Guard|bypass_check|type-in-type|impredicative-set|Admit\s+Obligations')

TRUSTED_BASE = [
    "Coq 8.16.1 kernel as run by coqc (vm_compute used in Examples/refutation witnesses; no native_compute)",
    "axioms: none - every property theorem prints 'Closed under the global context'",
    "extraction: Coq extraction plugin with ExtrOcamlBasic only (Extract Inductive bool/option/unit/list/prod/sumbool/sumor, "
    "Extract Inlined Constant fst/snd/andb/orb/negb as shipped; no Extract Constant of ours), OCaml 4.13.1, driver/main.ml",
    "correspondence harness (harness/*.py): shim recording library-boundary calls, sandbox, generators, canonicalisation; it is testing",
    "world-level theorems assume the file-system relation World.effect (paths are strings: no symlink aliasing; OpenExcl/Remove/Move atomic on "
    "failure; trees stay trees); its executable fragment (World.wapply, proved to be an instance: WorldProofs.wapply_effect) is compared with the "
    "before/after snapshots of every recorded run (world conformance tie, harness/worldtie.py)",
    "theorems over 'every run' assume well-typed answers (Prog.valid_res); CoqHammer's sauto is used as a tactic in Proofs/ConcProofs.v only",
    "modelled, not verified: all of trash-cli (hand-written Coq model), CPython 3.12 library functions it calls "
    "(urllib.parse.quote/unquote, _strptime, posixpath, fnmatch, int(), shutil.move/rmtree, os.makedirs), the Linux VFS",
]


def sh(cmd, **kw):
    return subprocess.run(cmd, shell=True, stdout=subprocess.PIPE, stderr=subprocess.STDOUT, text=True, **kw)


def build_framework():
    """incremental: a no-op when nothing under /verif/coq changed"""
    lock = open(os.path.join(VERIF, '.build.lock'), 'w')
    fcntl.flock(lock, fcntl.LOCK_EX)
    try:
        r = sh('make -s -C %s setup' % VERIF, timeout=3400)
        return r.returncode == 0, r.stdout
    finally:
        fcntl.flock(lock, fcntl.LOCK_UN)


def proof_step(prop, thorough):
    """returns dict(obligations, discharged, theorems, assumptions, checker_cmd, problems)"""
    vfile = os.path.join(COQ, 'theories', 'Props', prop + '.v')
    res = {'obligations': 0, 'discharged': 0, 'theorems': [], 'assumptions': [], 'problems': [],
           'checker_cmd': 'make -C /verif setup && cd /verif/coq && coqc -Q theories TV theories/Props/%s.v' % prop}
    if not os.path.exists(vfile):
        res['problems'].append('no theorem file Props/%s.v' % prop)
        return res
    # forbidden constructs anywhere in the development
    for f in glob.glob(os.path.join(COQ, 'theories', '**', '*.v'), recursive=True):
        txt = re.sub(r'\(\*.*?\*\)', '', open(f).read(), flags=re.S)
        for m in FORBIDDEN.finditer(txt):
            # Variable/Hypothesis are fine inside a Section
            if m.group(0) in ('Variable', 'Hypothesis'):
                pre = txt[:m.start()]
                if len(re.findall(r'^\s*Section\b', pre, flags=re.M)) > len(re.findall(r'^\s*End\b', pre, flags=re.M)):
                    continue
            res['problems'].append('forbidden construct %r in %s' % (m.group(0), os.path.relpath(f, COQ)))
    src = open(vfile).read()
    src_nc = re.sub(r'\(\*.*?\*\)', '', src, flags=re.S)
    thms = re.findall(r'^\s*(?:Theorem|Corollary)\s+(\w+)', src_nc, flags=re.M)
    res['theorems'] = thms
    res['obligations'] = len(thms)
    r = sh('cd %s && timeout 900 coqc -Q theories TV theories/Props/%s.v' % (COQ, prop))
    if r.returncode != 0:
        res['problems'].append('Props/%s.v does not compile: %s' % (prop, r.stdout[-600:]))
        return res
    # Print Assumptions output: one block per theorem
    blocks = re.split(r'(?m)^(?=Closed under the global context|Axioms:)', r.stdout)
    blocks = [b for b in blocks if b.startswith('Closed under') or b.startswith('Axioms:')]
    printed = re.findall(r'Print\s+Assumptions\s+(\w+)', src_nc)
    for t in thms:
        if t not in printed:
            res['problems'].append('no Print Assumptions for theorem %s' % t)
    ok = 0
    for name, b in zip(printed, blocks):
        if b.startswith('Closed under'):
            res['assumptions'].append('%s: Closed under the global context' % name)
            ok += 1 if name in thms else 0
        else:
            axs = re.findall(r'^(\S+)\s*:', b[len('Axioms:'):], flags=re.M)
            res['assumptions'].append('%s: Axioms: %s' % (name, ', '.join(axs)))
            if all(a in ALLOWED_AXIOMS for a in axs):
                ok += 1 if name in thms else 0
            else:
                res['problems'].append('theorem %s depends on axioms %s' % (name, axs))
    if len(blocks) != len(printed):
        res['problems'].append('Print Assumptions blocks (%d) != commands (%d)' % (len(blocks), len(printed)))
    res['discharged'] = ok
    if thorough:
        r2 = sh('cd %s && timeout 1500 coqchk -silent -o -Q theories TV TV.Props.%s' % (COQ, prop))
        res['coqchk'] = 'ok' if r2.returncode == 0 else 'FAILED'
        tail = r2.stdout.strip().split('\n')
        res['coqchk_output'] = tail[-25:]
        if r2.returncode != 0:
            res['problems'].append('coqchk failed: %s' % r2.stdout[-500:])
        res['checker_cmd'] += ' && coqchk -silent -o -Q theories TV TV.Props.%s' % prop
    return res


def load_known():
    p = os.path.join(VERIF, 'known_findings.json')
    if not os.path.exists(p):
        return []
    return json.load(open(p))


def write_replay(prop, payload):
    os.makedirs(os.path.join(VERIF, 'replays'), exist_ok=True)
    h = hashlib.sha1(jdump(payload).encode()).hexdigest()[:12]
    path = os.path.join('replays', '%s-%s.json' % (prop, h))
    with open(os.path.join(VERIF, path), 'w') as f:
        json.dump(payload, f, indent=1, sort_keys=True, default=jdefault)
    return path


def main(argv):
    prop = argv[1]
    tier = os.environ.get('VERIF_TIER', 'quick')
    replay = None
    i = 2
    while i < len(argv):
        if argv[i] == '--tier':
            tier = argv[i + 1]
            i += 2
        elif argv[i] == '--replay':
            replay = argv[i + 1]
            i += 2
        else:
            i += 1
    if tier not in ('quick', 'thorough'):
        tier = 'quick'
    seed = int(os.environ.get('VERIF_SEED', '0') or 0)
    thorough = tier == 'thorough'
    os.chdir(VERIF)
    run = Run(prop, tier, seed)
    mod = importlib.import_module('p_' + prop.lower())

    okb, blog = build_framework()
    if replay:
        payload = json.load(open(replay))
        rc = mod.replay(run, payload)
        known_keys = {k['key']: k for k in load_known() if k.get('property') == prop and k.get('status') == 'known'}
        fresh = []
        for f in run.failures:
            if f['kind'] == 'oracle' and f.get('key') in known_keys:
                # the listed findings are reported as such in replay mode too: they are not what a replay file is about
                print('KNOWN-FINDING: property=%s %s' % (prop, known_keys[f['key']]['what']))
                continue
            fresh.append(f)
            print('REPLAY-FAIL %s: %s' % (f['kind'], f['what']))
            print(jdump(f['case'])[:3000])
        print('replay verdict: %s' % ('property fails on this input' if fresh else 'no failure reproduced'))
        return 1 if fresh else 0

    if not okb:
        run.fail('proof', 'the Coq development or the model driver does not build', {'log': blog[-1500:]})
        proof = {'obligations': 0, 'discharged': 0, 'theorems': [], 'assumptions': [], 'problems': ['build failed'],
                 'checker_cmd': 'make -C /verif setup'}
    else:
        proof = proof_step(prop, thorough)
        for pb in proof['problems']:
            run.fail('proof', pb, {'theorem_file': 'coq/theories/Props/%s.v' % prop})
    if okb or True:
        try:
            mod.run(run, thorough)
        except Exception:
            run.fail('harness', 'check harness crashed', {'traceback': traceback.format_exc()[-3000:]})

    # ------------------------------------------------------------------ verdict
    known = [k for k in load_known() if k.get('property') == prop and k.get('status') == 'known']
    known_keys = {k['key']: k for k in known}
    seen_known = {}
    violations = []
    broken = []          # proof/tie failures without their own failing input
    for f in run.failures:
        if f['kind'] == 'oracle':
            if f.get('key') in known_keys:
                seen_known.setdefault(f['key'], f)
            else:
                violations.append(f)
        else:
            broken.append(f)
    lines = []
    for k, f in seen_known.items():
        lines.append('KNOWN-FINDING: property=%s %s' % (prop, known_keys[k]['what']))
    nviol = 0
    if violations:
        # one replay per distinct key/what (at most 5)
        seen = set()
        for f in violations:
            sig = (f.get('key'), f['what'])
            if sig in seen or len(seen) >= 5:
                continue
            seen.add(sig)
            path = write_replay(prop, {'property': prop, 'kind': 'failing-input', 'what': f['what'], 'key': f.get('key'),
                                       'section': f.get('section'), 'case': f['case'], 'seed': seed, 'tier': tier,
                                       'also_broken': [b['what'] for b in broken][:10]})
            lines.append('VIOLATION property=%s replay=%s' % (prop, path))
            nviol += 1
    elif broken:
        # proof or correspondence no longer checks and the search found no failing input
        seen = set()
        for b in broken:
            sig = (b['kind'], b['what'])
            if sig in seen or len(seen) >= 3:
                continue
            seen.add(sig)
            path = write_replay(prop, {'property': prop, 'kind': 'no-failing-input-found',
                                       'broken': {'kind': b['kind'], 'what': b['what']}, 'case': b['case'],
                                       'seed': seed, 'tier': tier})
            lines.append('VIOLATION property=%s replay=%s no-failing-input-found' % (prop, path))
            nviol += 1

    # ------------------------------------------------------------------ evidence
    cov = {
        'obligations': proof['obligations'],
        'discharged': proof['discharged'],
        'checker_cmd': proof['checker_cmd'],
        'trusted_base': TRUSTED_BASE + getattr(mod, 'TRUSTED_EXTRA', []),
        'theorems': proof['theorems'],
        'assumptions_printed': proof['assumptions'],
        'evaluations': run.evaluations,
        'distinct_nontrivial': len(run.nontrivial),
        'rule': getattr(mod, 'RULE', ''),
        'samples': run.samples or [{'note': 'no case executed'}],
        'sections': run.sections,
        'exhaustive_sections': run.exhaustive,
        'disagreements': sum(d.get('disagreements', 0) for d in run.sections.values()),
        'oracle_failures': sum(1 for f in run.failures if f['kind'] == 'oracle'),
        'known_findings_seen': sorted(seen_known),
        'notes': run.notes,
    }
    if 'coqchk' in proof:
        cov['coqchk'] = proof['coqchk']
        cov['coqchk_output'] = proof.get('coqchk_output')
    ev = {
        'property_id': prop, 'tier': tier, 'seed': seed, 'level': 'proof', 'coverage': cov,
        'assumptions': getattr(mod, 'ASSUMPTIONS', []),
        'wall_s': round(time.time() - run.t0, 2),
        'violations': nviol,
    }
    os.makedirs(os.path.join(VERIF, 'evidence'), exist_ok=True)
    with open(os.path.join(VERIF, 'evidence', prop + '.json'), 'w') as f:
        json.dump(ev, f, indent=1, sort_keys=True, default=repr)
    for ln in lines:
        print(ln)
    print('%s %s: theorems %d/%d, %d evaluations (%d distinct non-trivial), %d disagreements, %d oracle failures, %d known, %.1fs'
          % (prop, tier, proof['discharged'], proof['obligations'], run.evaluations, len(run.nontrivial),
             cov['disagreements'], cov['oracle_failures'], len(seen_known), time.time() - run.t0))
    return 1 if nviol else 0


if __name__ == '__main__':
    sys.exit(main(sys.argv))
