"""C14 - no purge without consent: --dry-run and a negative answer change nothing."""
import copy

import engine
import fn_logic
import scen
from common import esc

RULE = ("function level: parse_reply of /repo vs the Coq function on all strings of length <= 2 (3 thorough) over a 14-symbol "
        "alphabet and every single code point; trace level: every trash-empty run (generated layouts, trash contents incl. malformed "
        "entries, DAYS, -i/-f/tty, replies incl. empty and end of input, --trash-dir, -v, --dry-run) must issue exactly the operations "
        "of the Coq model, and the Coq consent monitor must accept the recorded trace; state level: snapshot before == after for "
        "dry runs and for declined/EOF interactive runs, and the paths a dry run prints == the paths the real run removes on the same "
        "tree. distinct = (mode, reply class, days?, dirs?, verbose, outcome, #entries class).")
ASSUMPTIONS = ["stdin is a terminal iff os.isatty(0) says so (the shim answers it from the scenario)"]

REPLIES = ['y\n', 'Y\n', 'yes\n', 'Yes', 'n\n', 'N\n', 'no\n', '\n', '', ' y\n', '\ty\n', 'ý\n', 'ｙ\n', '1\n', 'ok\n', 'Ÿ\n', 'n', 'yn\n', 'ny\n',
           '\u1e99\n', '\u1e99es\n', '\u0178es\n', '\u24e8\n']        # characters that only BECOME y/Y under a case mapping are not a yes


RULE += ' Since round 8: dry runs whose standard output breaks (EPIPE after 0-3 writes): nothing may change.'


def gen(rng, n):
    scns, metas = [], []
    for i in range(n):
        lay = scen.Layout(rng)
        nodes, ents, mal = scen.populate(rng, lay)
        if rng.random() < 0.2:
            # what file managers keep next to files/ and info/ (the spec's directorysizes cache): a dry run and the real run treat it alike
            for t0 in [lay.home_trash] + [lay.top2(vv) for vv in lay.all_vols if lay.top[vv][1] == 'dir']:
                nodes.append(['f', t0 + '/directorysizes', '4096 1700000000 somedir\n'])
        if rng.random() < 0.2:
            # an entry whose name is not valid UTF-8 (a byte string to the file system): what --dry-run prints must still be its path
            nm = rng.choice(['caf\udce9.txt', '\udcff', 'x\udc80y'])
            nodes += scen.entry(lay.home_trash, nm, '/was/' + nm.replace('\udce9', 'e').replace('\udcff', 'f').replace('\udc80', 'g'),
                                rng.choice(scen.DATES), rng.choice(['f', 'd']))
            ents.append({'td': lay.home_trash, 'name': nm})
        mode = rng.choice(['dry', 'dry', 'inter', 'inter', 'tty', 'plain'])
        if rng.random() < 0.1:
            # nothing but payloads lacking a .trashinfo in the trash: they are purged too, so the question is asked all the same
            nodes, ents, mal = [], [], [{'kind': 'payload_only'}]
            for t0 in [lay.home_trash] + [lay.top2(vv) for vv in lay.all_vols if lay.top[vv][1] == 'dir']:
                nodes += [['d', t0 + '/info', 0o700], ['f', t0 + '/files/orph', 'no info'], ['d', t0 + '/files/orphdir', 0o755], ['f', t0 + '/files/orphdir/x', 'x']]
            mode = rng.choice(['inter', 'inter', 'tty', 'dry'])
        argv = []
        env = {}
        if rng.random() < 0.5:
            argv.append(str(rng.choice([0, 1, 30, 9000])))
            env['TRASH_DATE'] = rng.choice(['2024-01-02T00:00:00', '2030-01-01T00:00:00', 'bogus'])
        if rng.random() < 0.3:
            argv.append(rng.choice(['-v', '-vv']))
        if rng.random() < 0.2 and ents:
            argv += ['--trash-dir', rng.choice(ents)['td']]
        elif rng.random() < 0.15:
            # a trash directory whose files/ (or info/) is a symbolic link to a directory elsewhere (the payloads kept on a bigger disk):
            # what a dry run announces there is what the real run removes there
            which = rng.choice(['files', 'info'])
            nodes += [['d', '/altd/' + ('info' if which == 'files' else 'files'), 0o700], ['d', '/altd_' + which, 0o700], ['l', '/altd/' + which, '/altd_' + which]]
            for k in range(rng.randint(1, 3)):
                nodes += [['f', ('/altd/info' if which == 'files' else '/altd_info') + '/k%d.trashinfo' % k, scen.TI % ('/was/k%d' % k, rng.choice(scen.DATES))],
                          ['f', ('/altd_files' if which == 'files' else '/altd/files') + '/k%d' % k, 'kept elsewhere']]
            if rng.random() < 0.5:
                nodes.append(['f', ('/altd_files' if which == 'files' else '/altd/files') + '/orphan', 'no info'])
            argv += ['--trash-dir', '/altd']
        elif rng.random() < 0.12:
            # a trash directory whose ONLY entry is an empty directory (trashed empty, or a payload lacking its .trashinfo): removing it
            # empties files/ - which stays, as announced
            nodes += [['d', '/solo/info', 0o700], ['d', '/solo/files/emptydir', 0o755]]
            if rng.random() < 0.6:
                nodes.append(['f', '/solo/info/emptydir.trashinfo', scen.TI % ('/was/emptydir', rng.choice(scen.DATES))])
            argv += ['--trash-dir', '/solo']
        base = {'cmd': 'empty', 'env': env, 'now': [2024, 6, 1, 12, 0, 0, 0], 'listdir': rng.choice(['sorted', 'reverse', rng.randint(1, 99)])}
        reply = None
        if mode == 'dry':
            s1 = dict(base, argv=argv + ['--dry-run'] + (['-f'] if rng.random() < 0.3 else []))
            s2 = dict(base, argv=argv + ['-f'])
            steps = [s1, s2]
        elif mode == 'inter':
            reply = rng.choice(REPLIES)
            # the LAST of -i / -f on the command line decides (one argparse destination): '-f ... -i' is interactive
            steps = [dict(base, argv=argv + rng.choice([['-i'], ['-i'], ['--interactive'], ['-f', '-i'], ['-f', '--interactive'], ['-i', '-f', '-i']]), stdin=reply)]
        elif mode == 'tty':
            reply = rng.choice(REPLIES)
            steps = [dict(base, argv=argv, stdin=reply, tty=True)]
            if rng.random() < 0.5:
                steps[0]['env'] = dict(env, TERM=rng.choice(['dumb', 'dumb', 'xterm', '', 'linux']))    # a terminal is a terminal, whatever $TERM says
        else:
            steps = [dict(base, argv=argv)]
        scns.append(lay.scenario(steps, extra=nodes))
        metas.append({'mode': mode, 'reply': reply, 'n': len(ents), 'mal': [m['kind'] for m in mal]})
    return scns, metas


def consent_param(step):
    a = step.get('argv') or []
    last = None
    for x in a:
        if x in ('-i', '--interactive'):
            last = 'n1'
        elif x == '-f':
            last = 'n2'
    return last or 'n0'


def judge(run, scn, meta, res, section='state'):
    before = res['before']
    steps = res['steps']
    jobs = []
    for st, o in zip(scn['steps'], steps):
        jobs.append(('consent', consent_param(st), o, {'scenario': scn, 'step': st}))
    case = {'scenario': scn, 'meta': meta}
    o1 = steps[0]
    run.count(section)
    if meta['mode'] == 'dry':
        if engine.changed_paths(before, o1['after'], ignore_dir_mtime=False):
            run.fail('oracle', 'trash-empty --dry-run changed the file system', dict(case, changed=engine.changed_paths(before, o1['after'], False)[:10]),
                     key='dry-run-mutates', section=section)
        printed = ('\n' + o1['stdout']).split('\nwould remove ')[1:]
        if printed and printed[-1].endswith('\n'):
            printed[-1] = printed[-1][:-1]
        # the real run on the same tree
        o2 = steps[1]
        after = o2['after']
        removed_top = set()
        for p in before:
            if p not in after:
                par = p.rsplit('/', 1)[0]
                if par.endswith('/files') or par.endswith('/info') or (par in after and par != ''):
                    removed_top.add(p)            # the top-most removed things, wherever they were (an entry, or anything else of the trash directory)
        pr = set(engine.physical(before, p) for p in printed)
        missing = sorted(p for p in removed_top if p not in pr)
        survivors = sorted(p for p in pr if p in before and p in after)
        if o1['exit'] == 0 and o2['exit'] == 0 and not o2['stderr'].strip() and (missing or survivors):
            run.fail('oracle', 'the paths printed by --dry-run differ from the paths the real run removes',
                     dict(case, removed_not_printed=missing[:10], printed_not_removed=survivors[:10]), key='dry-run-mispredicts', section=section)
        run.nontriv(('dry', len(printed) > 0, len(printed) > 3, bool(meta['mal']), '--trash-dir' in scn['steps'][0]['argv'],
                     any(a.isdigit() for a in scn['steps'][0]['argv'])))
    elif meta['mode'] in ('inter', 'tty'):
        yes = (meta['reply'] or '')[:1] in ('y', 'Y')
        ch = engine.changed_paths(before, o1['after'], ignore_dir_mtime=False)
        if not yes and ch:
            run.fail('oracle', 'a reply that does not begin with y/Y (or end of input) did not leave the trash unchanged',
                     dict(case, reply=esc(meta['reply']), changed=ch[:10]), key='purge-without-consent', section=section)
        run.nontriv((meta['mode'], esc(meta['reply'] or ''), bool(ch), meta['n'] > 0))
    else:
        run.nontriv(('plain', meta['n'] > 0, bool(meta['mal'])))
    return jobs


def run(run, thorough):
    fn_logic.replies(run, thorough)
    fn_logic.unicode_tables(run, thorough)
    scns, metas = gen(run.rng, 400 if not thorough else 6000)
    out = engine.run_all(run, 'empty', scns)
    jobs = []
    by_id = {id(s): m for s, m in zip(scns, metas)}
    for scn, res in out:
        jobs += judge(run, scn, by_id[id(scn)], res)
    # whoever reads the output of a dry run goes away (trash-empty --dry-run | head -1): the writes fail with EPIPE from some point on.
    # However the command ends then, it was a dry run: nothing may change.  (Not tied to the model, which has no failing output.)
    import copy
    import sandbox
    brk, bmetas = [], []
    for scn, m in zip(scns, metas):
        if m['mode'] == 'dry' and len(brk) < (60 if not thorough else 600):
            s2 = copy.deepcopy(scn)
            s2['steps'][0]['stdout_breaks'] = run.rng.choice([0, 0, 1, 2, 3])
            if run.rng.random() < 0.5 and '-v' not in s2['steps'][0]['argv']:
                s2['steps'][0]['argv'] = ['-v'] + s2['steps'][0]['argv']
            brk.append(s2)
            bmetas.append(m)
    for s2, m, res in zip(brk, bmetas, sandbox.execute_many(brk)):
        if res.get('harness_error') or len(res.get('steps') or []) < 2:
            continue
        jobs += judge(run, s2, m, res, section='broken-output')
    engine.run_monitors(run, 'consent-monitor', jobs, 'the consent monitor (Coq, C14) rejects the implementation trace: a mutation without consent',
                        'mutation-without-consent')
    if out:
        s = out[0][0]
        run.sample({'level': 'state', 'steps': [(st['cmd'], st['argv'], esc(st.get('stdin') or '')) for st in s['steps']],
                    'tree_nodes': len(s['tree'])})


def replay(run, payload):
    case = payload.get('case') or {}
    if 'scenario' in case:
        import sandbox
        scn = case['scenario']
        res = sandbox.execute(scn)
        for st, o in zip(scn['steps'], res['steps']):
            print(st['cmd'], st['argv'], 'exit', o['exit'], 'exc', o['exc'])
            print(' stdout:', esc(o['stdout'][:600]))
            print(' stderr:', esc(o['stderr'][:600]))
        meta = case.get('meta') or {'mode': 'plain', 'reply': None, 'n': 0, 'mal': []}
        jobs = judge(run, scn, meta, res)
        engine.run_monitors(run, 'consent-monitor', jobs, 'consent monitor rejects the trace', 'mutation-without-consent')
    elif 'args_tok' in case:
        from common import model_batch
        rep = model_batch([(case['function'], case['args_tok'])])[0]
        print('model:', rep, 'impl recorded:', case.get('impl'))
        if rep != case.get('impl'):
            run.fail('tie', 'function-level disagreement persists', case)
