"""Function-level correspondence: the Python function imported from /repo (or the CPython library
function the model commits to) and the extracted Coq function on the same inputs."""
import itertools
import sys

from common import model_batch, esc


def compare(run, section, model_fn, py_fn, cases, toks, keyf=None, exhaustive=False, max_report=5):
    """cases: iterable of argument tuples (python values); toks: tuple of tokenizers, one per arg;
    py_fn(*args) -> reply token string (must canonicalise exceptions itself).
    keyf(args, reply) -> hashable class of the case for distinct_nontrivial (None = trivial)."""
    cases = list(cases)
    reqs = [(model_fn, [t(a) for t, a in zip(toks, args)]) for args in cases]
    replies = model_batch(reqs)
    bad = 0
    for args, mrep in zip(cases, replies):
        try:
            prep = py_fn(*args)
        except Exception as e:                       # harness bug or un-modelled exception type
            prep = '!PYEXC ' + type(e).__name__
        run.count(section)
        if keyf is not None:
            k = keyf(args, prep)
            if k is not None:
                run.nontriv((section, k))
        if prep != mrep:
            bad += 1
            if bad <= max_report:
                run.fail('tie', 'function-level disagreement in %s' % section,
                         {'function': model_fn, 'args': [esc(a) if isinstance(a, (str, bytes)) else repr(a) for a in args],
                          'args_tok': [t(a) for t, a in zip(toks, args)],
                          'impl': prep, 'model': mrep}, section=section)
    run.count(section, bad, 'disagreements')
    if exhaustive:
        run.exhaustive.append(section)
    if cases:
        a = cases[len(cases) // 2]
        run.sample({'level': 'function', 'section': section, 'function': model_fn,
                    'args': [esc(x) if isinstance(x, (str, bytes)) else repr(x) for x in a]})
    return bad


def words(alphabet, maxlen, minlen=0):
    for n in range(minlen, maxlen + 1):
        for t in itertools.product(alphabet, repeat=n):
            yield ''.join(t)
