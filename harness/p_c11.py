"""C11 - purging touches nothing outside the trash directories and follows no symlink."""
import os

import engine
import scen
import tracelevel
from common import esc

RULE = ("trace level: every trash-empty / trash-rm run on generated trash contents (payloads that are symlinks to files/directories "
        "outside - absolute, relative, dangling -, directory trees with such links at depth, names ending in .trashinfo or containing "
        "newlines, malformed neighbours, trash dirs reached through a symlinked .Trash or a symlinked --trash-dir) must issue exactly the "
        "operations of the Coq model; every remove/rmtree path of the recorded trace must be <td>/files/<name> or <td>/info/<name> with a "
        "single valid component; state level: every node outside files/ and info/ of the trash directories (type, mode, content, link target, "
        "mtime) is identical before and after. distinct = (command, #removed class, link payloads?, dir payloads?, via symlink?, malformed kinds).")
ASSUMPTIONS = ["os.remove unlinks a symlink without following it and shutil.rmtree never follows one (CPython/kernel behaviour, exercised here, not proved)"]


def gen(rng, n):
    scns, metas = [], []
    for i in range(n):
        lay = scen.Layout(rng)
        nodes, ents, mal = scen.populate(rng, lay, n_entries=rng.randint(1, 7))
        extra = []
        argv_td = []
        if rng.random() < 0.25:
            # a user trash dir reached through a symlink
            extra += [['d', '/real_td/info', 0o700], ['d', '/real_td/files', 0o700], ['l', '/link_td', 'real_td']]
            extra += scen.entry('/real_td', 'via', '/home/u/via', '2001-01-01T00:00:00', rng.choice(['f', 'd', 'l']))
            argv_td = ['--trash-dir', rng.choice(['/link_td', '/link_td/', '/real_td//', '/real_td'])]
        if rng.random() < 0.2:
            # a trash dir below ancestors named like the trash's own sub-directories, with look-alike decoys next to it
            anc = rng.choice(['/info/td', '/files/td', '/x/info/info', '/a/files/info/t'])
            nm = rng.choice(['a', 'foo', 'info', 'files'])
            extra += scen.entry(anc, nm, '/home/u/' + nm, '2001-01-01T00:00:00', rng.choice(['f', 'd']))
            for decoy in set([anc.replace('info', 'files', 1), anc.replace('files', 'info', 1), anc.replace('/info', '/files'), anc.replace('/files', '/info')]):
                if decoy != anc:
                    extra += [['f', decoy + '/info/' + nm, 'decoy'], ['f', decoy + '/files/' + nm, 'decoy'], ['f', decoy + '/info/' + nm + '.trashinfo', 'decoy']]
            argv_td = ['--trash-dir', anc]
        real_tds = None
        if not argv_td and rng.random() < 0.15:
            # a trash dir named through <symlink to a directory>/.. : the kernel resolves it to the PARENT OF THE LINK'S TARGET, not to
            # what is left when 'link/..' is struck out of the string; a look-alike sits at the struck-out path and must stay untouched
            nm = rng.choice(['via2', 'a', 'foo'])
            extra += [['d', '/deep/in', 0o755], ['l', '/lnk', '/deep/in']]
            extra += scen.entry('/deep/real2', nm, '/home/u/' + nm, '2001-01-01T00:00:00', rng.choice(['f', 'd', 'l']))
            extra += scen.entry('/real2', nm, '/home/u/' + nm, '2001-01-01T00:00:00', rng.choice(['f', 'd']))
            argv_td = ['--trash-dir', '/lnk/../real2']
            real_tds = ['/deep/real2']
        if not argv_td and rng.random() < 0.15:
            # the home trash's info/ is a symbolic link to a directory elsewhere (a trash whose bookkeeping was moved to another disk):
            # the payload of info/<n>.trashinfo is <trash dir>/files/<n>, not 'info/../files/<n>' - next to the link's target sits a
            # look-alike files/ directory that must stay as it is
            hi = lay.home_trash + '/info'
            moved = []
            for nd in nodes:
                if nd[1] == hi:
                    continue
                if nd[1].startswith(hi + '/'):
                    nd = [nd[0], '/elsewhere/info' + nd[1][len(hi):]] + list(nd[2:])
                    moved.append(os.path.basename(nd[1]))
                extra.append(nd)
            nodes = []
            extra += [['d', '/elsewhere/info', 0o700], ['l', hi, '/elsewhere/info'], ['d', '/elsewhere/files', 0o700]]
            for nm in moved:
                if nm.endswith('.trashinfo'):
                    extra.append(['f', '/elsewhere/files/' + nm[:-len('.trashinfo')], 'look-alike'])
        if rng.random() < 0.2:
            # what other implementations keep next to files/ and info/: the spec's directorysizes cache, gvfs' expunged/ (here also as
            # a link to a directory elsewhere), a stray file - none of it is the purge's business
            t0 = argv_td[1].rstrip('/') if argv_td and not argv_td[1].startswith('/lnk/') else lay.home_trash
            extra += [['f', t0 + '/directorysizes', '4096 1700000000 via\n'], ['f', t0 + '/stray.txt', 'stray']]
            extra += ([['d', t0 + '/expunged', 0o700], ['f', t0 + '/expunged/123456', 'half deleted'], ['d', t0 + '/expunged/dir1', 0o700], ['f', t0 + '/expunged/dir1/x', 'x']]
                      if rng.random() < 0.6 else [['l', t0 + '/expunged', '/canary/dir']])
        if rng.random() < 0.25:
            # an info file that is a symbolic link to a file OUTSIDE the trash (somebody keeps notes there, an attacker points it at
            # ~/.profile): it may be read, it may be removed (the link, not the file), what it points to is never written to
            t0 = argv_td[1].rstrip('/') if argv_td and not argv_td[1].startswith('/lnk/') else lay.home_trash
            extra += [['l', t0 + '/info/notes.trashinfo', rng.choice(['/canary/file', '/canary/dir/x', '/canary/rodir/inside'])], ['f', t0 + '/files/notes', 'p']]
        other_env = {}
        if not argv_td and rng.random() < 0.25:
            # ANOTHER user's trash directory on one of the volumes, and an environment that mentions that user (a shell reached through
            # sudo -E / su keeps such variables): the purge is the caller's - os.getuid() - and nobody else's
            ou = lay.uid + 4242
            vv = rng.choice(lay.all_vols)
            extra += scen.entry(scen.Layout.j(vv, '.Trash-%d' % ou), 'theirs', 'sh/theirs', '2001-01-01T00:00:00', rng.choice(['f', 'd']))
            other_env = {'SUDO_UID': str(ou), 'SUDO_GID': str(ou), 'SUDO_USER': 'other', 'LOGNAME': 'other', 'USER': 'other'}
        cmd = rng.choice(['empty', 'empty', 'rm'])
        step = {'cmd': cmd, 'argv': [], 'listdir': rng.choice(['sorted', 'reverse', rng.randint(1, 99)])}
        if cmd == 'empty':
            if rng.random() < 0.4:
                step['argv'].append(str(rng.choice([0, 1, 400, 9000])))
                step['env'] = {'TRASH_DATE': '2024-01-02T00:00:00'}
            step['argv'] += argv_td
            if rng.random() < 0.2:
                step['argv'].append('-v')
        else:
            step['argv'] = [rng.choice(['*', '*', 'a*', 'foo*', '/*', '[a-z]*', '?*'])]
        if other_env:
            step['env'] = dict(step.get('env') or {}, **other_env)
        scns.append(lay.scenario([step], extra=nodes + extra))
        tds = [argv_td[1]] if (argv_td and cmd == 'empty') else ([lay.home_trash] + [lay.top1(v) for v in lay.all_vols if lay.top[v][0] == 'sticky'] + [lay.top2(v) for v in lay.all_vols])
        metas.append({'tds': tds, 'cmd': cmd, 'mal': sorted(m['kind'] for m in mal), 'link': any(e['payload'] == 'l' for e in ents),
                      'dir': any(e['payload'] == 'd' for e in ents), 'via': bool(argv_td)})
    return scns, metas


def inside_purge_area(p, tds):
    for td in tds:
        if isinstance(td, tuple):                  # (physical files/ directory, physical info/ directory)
            if any(p.startswith(d + '/') for d in td):
                return True
            continue
        for sub in ('/files/', '/info/'):
            if p.startswith(td + sub):
                return True
    return False


def valid_name(x):
    return x != '' and '/' not in x and x not in ('.', '..')


def judge(run, scn, meta, res, section='state'):
    before, o = res['before'], res['steps'][0]
    after = o['after']
    case = {'scenario': scn, 'meta': meta}
    run.count(section)
    tds = [(engine.kresolve(before, t + '/files/x')[:-2], engine.kresolve(before, t + '/info/x')[:-2]) for t in meta.get('tds') or engine.trash_dirs_in(before)]
    ch = [p for p in engine.changed_paths(before, after, ignore_dir_mtime=False) if not inside_purge_area(p, tds)]
    # the files/ and info/ directories themselves may get a new mtime when an entry is unlinked
    ch = [p for p in ch if not (p.endswith('/files') or p.endswith('/info')) or before.get(p, ('',))[:3] != after.get(p, ('',))[:3]]
    if ch:
        run.fail('oracle', 'a purge changed something outside files/ and info/ of the trash directories',
                 dict(case, changed=[(p, before.get(p), after.get(p)) for p in ch[:8]]), key='outside-touched', section=section)
    # trace: the targets of the removals
    bad = []
    for name, args, r in (t[:3] for t in o['trace']):
        if name in ('remove', 'unlink', 'rmtree'):
            p = args[0]
            phys = engine.kresolve(before, p) if p.startswith('/') else p
            d, x = os.path.split(p)
            if not valid_name(x) or os.path.basename(d) not in ('files', 'info') or not inside_purge_area(phys, tds):
                bad.append(p)
        elif name in ('move', 'makedirs', 'open', 'write', 'rename', 'mkdir', 'rmdir', 'symlink', 'chmod'):
            bad.append(name + ' ' + str(args[0]))
    if bad:
        run.fail('oracle', 'a purge issued a mutation whose target is not <trash dir>/files/<name> or <trash dir>/info/<name>',
                 dict(case, targets=[esc(b) for b in bad[:8]]), key='target-outside', section=section)
    nrem = sum(1 for p in before if p not in after)
    run.nontriv((meta['cmd'], min(nrem, 6) // 2, meta['link'], meta['dir'], meta['via'], tuple(meta['mal'])))


def run(run, thorough):
    scns, metas = gen(run.rng, 500 if not thorough else 8000)
    out = engine.run_all(run, 'purge', scns)
    by_id = {id(s): m for s, m in zip(scns, metas)}
    for scn, res in out:
        judge(run, scn, by_id[id(scn)], res)
    # the same purges with ONE system call inside them refused (EACCES on an unlink / rmdir in the middle of a removal): whatever the
    # command then does to recover, nothing outside files/ and info/ may change - not even a mode
    import copy
    import errno
    faulted, fmetas = [], []
    for scn, res in out:
        muts = res['steps'][0].get('muts') or []
        ks = [k + 1 for k, m in enumerate(muts) if m in ('unlink', 'rmdir')]
        if not ks or len(faulted) >= (120 if not thorough else 1500):
            continue
        s2 = copy.deepcopy(scn)
        s2['steps'][0]['plan'] = {'sysfault': [run.rng.choice(ks), run.rng.choice([errno.EACCES, errno.EPERM, errno.EBUSY])]}
        faulted.append(s2)
        fmetas.append(by_id[id(scn)])
    outf = engine.run_all(run, 'purge-faulted', faulted, strict=False)
    byf = {id(s): m for s, m in zip(faulted, fmetas)}
    for scn, res in outf:
        judge(run, scn, byf[id(scn)], res, section='state-faulted')
    if out:
        s = out[0][0]
        run.sample({'level': 'state', 'step': [s['steps'][0]['cmd'], s['steps'][0]['argv']],
                    'tree': [[e[0], esc(e[1])] + ([esc(e[2])] if e[0] == 'l' else []) for e in s['tree'][:25]]})


def replay(run, payload):
    case = payload.get('case') or {}
    if 'scenario' in case:
        import sandbox
        scn = case['scenario']
        res = sandbox.execute(scn)
        o = res['steps'][0]
        print(scn['steps'][0]['cmd'], scn['steps'][0]['argv'], 'exit', o['exit'], 'exc', o['exc'])
        print(' stderr:', esc(o['stderr'][:600]))
        judge(run, scn, case.get('meta') or {'cmd': '', 'mal': [], 'link': 0, 'dir': 0, 'via': 0}, res)
