"""C03 - every .trashinfo is spec-conformant and decodes back to the exact path and time."""
import datetime
import os

import engine
import fn_codec
import sandbox
from common import tok_s, tok_b, tok_opt, arg_dt, model_batch, esc, untok_s
from fnlevel import compare, words

RULE = ("function level: the Python functions of /repo (format_trashinfo, parse_path, parse_deletion_date, "
        "maybe_parse_deletion_date, parse_original_location, OriginalLocation._calc_parent_path) and the CPython "
        "functions they rest on (quote/unquote, UTF-8 decoders, strptime/strftime, posixpath) against the extracted "
        "Coq functions on exhaustive small-scope cores + seeded random inputs; state level: real trash-put runs in "
        "a chroot sandbox on generated names, the bytes of info/*.trashinfo compared with the model's "
        "format_trashinfo and judged by an independent byte-level unescape. A case is non-trivial/distinct by its "
        "(section, outcome class, size class, escape/non-ASCII flags) key.")
ASSUMPTIONS = ["the clock value handed to the writer is a valid datetime with year >= 1000",
               "text files are read with the UTF-8 locale encoding (LC_ALL=C.UTF-8) and universal newlines"]

NAME_POOL = ['a', 'b', 'Z', '0', ' ', '%', '\n', '\r', '=', '[', ']', '+', '#', '?', '~', '.', '-', '_', '\t', '\\',
             "'", '"', '*', '\xe9', '€', '\U0001F600', '\x7f', '\x01', '%41', '%2F', '..', '.trashinfo',
             '\udc80', '\udcff\udcfe',
             # not in Unicode normal form C: a decomposed accent, the Angstrom sign, a lone combining mark - names are byte strings to the
             # file system, and the record must give the same bytes back
             'e\u0301', '\u212b', 'n\u0303', '\u0301']


RULE += " Since round 8 half of the deep cases are spelt through a symbolic link that is an ancestor of the entry's directory."


def gen_name(rng):
    r = rng.random()
    if r < 0.08:
        return rng.choice(['x' * 255, '\xe9' * 127, 'a' * 200 + '%' * 20, '-rf', '-', '--', '.hidden', 'a b', ' ', '%',
                           '\n', 'Path=x', '[Trash Info]'])
    n = rng.choice([1, 1, 2, 3, 4, 6])
    s = ''.join(rng.choice(NAME_POOL) for _ in range(n))
    if s in ('.', '..') or not s:
        s = 'n' + s
    return s[:200]


def rfc_unescape(bs):
    """independent byte-level reading of the spec's escaping (RFC 2396 unescape)"""
    out = bytearray()
    i = 0
    hexd = b'0123456789abcdefABCDEF'
    while i < len(bs):
        if bs[i] == 0x25 and i + 2 < len(bs) + 0 and i + 2 <= len(bs) - 1 + 0 and bs[i + 1] in hexd and bs[i + 2] in hexd:
            out.append(int(bs[i + 1:i + 3], 16))
            i += 3
        else:
            out.append(bs[i])
            i += 1
    return bytes(out)


def judge_state(run, scn, meta, res, reqs, pend, section='state'):
    """one put + list scenario: the bytes on disk, what trash-list prints, and (queued in reqs/pend) the model's bytes"""
    run.count('state')
    if res.get('harness_error') or not res['steps']:
        run.fail('harness', 'sandbox failure', {'error': res.get('harness_error'), 'scenario': scn})
        return
    put, lst = res['steps'][0], res['steps'][1]
    after = put['after']
    uid = meta['uid']
    if meta['where'] in ('home', 'home_deep', 'home_long'):
        td, loc = '/home/u/.local/share/Trash', meta['full']
    elif meta['where'] == 'selfnest':
        td, loc = '/.Trash-%d' % uid, meta['full'][1:]
    elif meta['where'] == 'forced':
        td = '/vol1/.Trash/%d' % uid if meta['sticky'] else '/vol1/.Trash-%d' % uid
        loc = meta['full']
    else:
        td = '/vol1/.Trash/%d' % uid if meta['sticky'] else '/vol1/.Trash-%d' % uid
        loc = meta['full'][len('/vol1/'):]
    infos = sorted(p for p in after if p.startswith(td + '/info/') and after[p][0] == 'f')
    encodable = True
    try:
        meta['full'].encode('utf-8')
    except UnicodeEncodeError:
        encodable = False
    key = ('state', meta['where'], meta['sticky'], meta['kind'], encodable, put['exit'],
           any(c in meta['name'] for c in '%\n\r '), any(ord(c) > 127 for c in meta['name']))
    run.nontriv(key)
    case = {'scenario': scn, 'meta': {k: (esc(v) if isinstance(v, str) else v) for k, v in meta.items()},
            'put_exit': put['exit'], 'put_exc': put['exc'], 'stderr': put['stderr'][-400:]}
    if not encodable:
        # never reaches the writer (C16 judges the way it fails); nothing must have been written
        if infos:
            run.fail('oracle', 'an info file was written for an un-encodable name', case, key='unencodable-info', section='state')
        return
    if put['exit'] != 0 or len(infos) != 1:
        if len(os.fsencode(meta['name'])) + len('.trashinfo') > 255 and put['exit'] != 0:
            run.nontriv(('state', 'name-too-long-for-info'))
            return
        run.fail('oracle', 'trash-put of an ordinary entry failed or wrote %d info files' % len(infos), case,
                 key='put-failed', section='state')
        return
    data = after[infos[0]][2]
    d = datetime.datetime(*meta['now'])
    # O: the property's wording on the bytes on disk, by an independent reader
    blines = data.split(b'\n')
    ok = (len(blines) == 4 and blines[3] == b'' and blines[0] == b'[Trash Info]' and blines[1].startswith(b'Path=')
          and blines[2].startswith(b'DeletionDate='))
    if ok:
        pv = blines[1][5:]
        allowed = set(b'ABCDEFGHIJKLMNOPQRSTUVWXYZabcdefghijklmnopqrstuvwxyz0123456789_.-~/%')
        ok = ok and all(c in allowed for c in pv)
        ok = ok and rfc_unescape(pv) == os.fsencode(loc)
        ok = ok and blines[2][13:].decode('ascii', 'replace') == '%04d-%02d-%02dT%02d:%02d:%02d' % tuple(meta['now'][:6])
        ok = ok and (pv.startswith(b'/') == (meta['where'] in ('home', 'home_deep', 'home_long', 'forced'))) and b'/../' not in b'/' + pv + b'/'
    if not ok:
        run.fail('oracle', '.trashinfo on disk is not the spec-conformant image of (location, time)',
                 dict(case, info_bytes=esc(data), expected_location=esc(loc)), key='bad-trashinfo', section='state')
    # O: trash-list prints the decoded absolute path and the date
    want = '%04d-%02d-%02d %02d:%02d:%02d %s\n' % (tuple(meta['now'][:6]) + (meta['full'],))
    if lst['exit'] != 0 or lst['stdout'] != want:
        run.fail('oracle', 'trash-list does not print the exact original path/date of the entry',
                 dict(case, list_stdout=esc(lst['stdout']), want=esc(want)), key='list-mismatch', section='state')
    # T: bytes on disk == model's format_trashinfo(loc, now)
    reqs.append(('format_trashinfo', [tok_s(loc), arg_dt(d)]))
    pend.append((case, data))


def state_level(run, thorough):
    rng = run.rng
    n = 160 if not thorough else 2500
    scns = []
    metas = []
    for k in range(n):
        name = gen_name(rng)
        where = rng.choice(['home', 'home', 'vol', 'vol_top', 'home_deep']) if rng.random() > 0.1 else rng.choice(['home_long', 'vol_long', 'forced', 'forced', 'selfnest'])
        sticky = rng.random() < 0.5
        tree = [['d', '/home/u', 0o755], ['d', '/vol1', 0o755]]
        if sticky:
            tree.append(['d', '/vol1/.Trash', 0o1777])
        depthdirs = [gen_name(rng).replace('\udc80', 'q').replace('\udcff\udcfe', 'w') for _ in range(rng.randint(0, 3))]
        if where == 'home':
            parent = '/home/u'
        elif where == 'home_deep':
            parent = '/home/u/' + '/'.join(depthdirs) if depthdirs else '/home/u'
        elif where == 'vol':
            parent = '/vol1/' + '/'.join(depthdirs) if depthdirs else '/vol1/sub'
        elif where == 'forced':
            # --force-volume /vol1 for a file that lives NEXT to the volume, in a directory whose name merely begins like it:
            # it is not below the top directory, so its Path stays absolute
            parent = rng.choice(['/vol1x', '/vol1x/d', '/vol10/sub', '/vol1.bak'])
        elif where in ('home_long', 'vol_long'):
            # 80-character CJK components: 1.5-1.7 kB on disk, but more than 4.3 kB once percent-escaped in Path=
            parent = ('/home/u/' if where == 'home_long' else '/vol1/') + '/'.join(['\u6f22' * 80] * rng.choice([6, 7]))
        else:
            parent = '/vol1'
        if len(os.fsencode(parent)) > 3000:
            parent = '/home/u'
        kind = rng.choice(['f', 'f', 'd', 'l'])
        if where == 'selfnest':
            # the directory that CONTAINS the home trash: the first candidate creates its directories and its info file, then cannot move
            # the directory into itself; the entry falls through to /.Trash-$uid, whose Path is relative to the top directory '/'
            parent, name, kind = '/home/u', '.local', 'd'
            tree.append(['d', '/home/u/.local/share', 0o755])
        full = parent + '/' + name
        tree.append(['d', parent, 0o755])
        if kind == 'f':
            tree.append(['f', full, 'data-' + str(k)])
        elif kind == 'd':
            tree.append(['d', full, 0o755])
            tree.append(['f', full + '/inner', 'x'])
        else:
            tree.append(['l', full, 'target-' + str(k)])
        spelling = rng.choice(['abs', 'rel', 'dotrel'])
        via = None
        if where in ('home_deep', 'vol') and parent.count('/') >= 3 and rng.random() < 0.5 and '\n' not in parent:
            # the argument is written through a symbolic link that is an ANCESTOR of the entry's directory (not the directory itself):
            # the recorded location is the real one - the parent directory resolved - whichever way the argument was spelt
            comps = parent.split('/')
            cut = rng.randint(3, len(comps) - 1) if len(comps) > 3 else 3
            real_anc, rest = '/'.join(comps[:cut]), '/'.join(comps[cut:])
            if rest:
                via = '/home/u/lk%d' % k
                tree.append(['l', via, real_anc])
                spelling = rng.choice(['abs', 'abs', 'vialinkrel'])
        if via and spelling == 'abs':
            cwd, arg = '/', via + '/' + rest + '/' + name
        elif via:
            cwd, arg = '/home/u', os.path.basename(via) + '/' + rest + '/' + name
        elif spelling == 'abs':
            cwd, arg = '/', full
        elif spelling == 'rel':
            cwd, arg = parent, name
        else:
            cwd, arg = parent, './' + name
        now = [rng.choice([1000, 1999, 2024, 2038, 9999]), rng.randint(1, 12), rng.randint(1, 28), rng.randrange(24),
               rng.randrange(60), rng.randrange(60), rng.randrange(1000000)]
        scn = {'tree': tree, 'mounts': ['/vol1'], 'cwd': cwd, 'uid': rng.choice([0, 1000]),
               'env': {'HOME': '/home/u', 'TRASH_VOLUMES': '/:/vol1'},
               'steps': [{'cmd': 'put', 'argv': (['--force-volume', '/vol1'] if where == 'forced' else []) + ['--', arg], 'now': now,
                          # the recorded date is the clock's local time of day: trash-empty's TRASH_DATE and the time zone's daylight
                          # saving rule have no say in it
                          'env': rng.choice([{}, {}, {}, {'TRASH_DATE': '2001-01-01T00:00:00'}, {'TZ': 'XST5XDT,M3.2.0,M11.1.0'}, {'TZ': 'XST-1XDT,M2.3.0/2,M10.5.0/3'}])},
                         {'cmd': 'list', 'argv': []}]}
        scns.append(scn)
        metas.append({'name': name, 'parent': parent, 'full': full, 'where': where, 'sticky': sticky, 'now': now,
                      'kind': kind, 'uid': scn['uid']})
    results = sandbox.execute_many(scns)
    reqs = []
    pend = []
    for scn, meta, res in zip(scns, metas, results):
        judge_state(run, scn, meta, res, reqs, pend)
    reps = model_batch(reqs)
    bad = 0
    for (case, data), rep in zip(pend, reps):
        if rep != 'S' + tok_s(data):
            bad += 1
            if bad <= 3:
                run.fail('tie', 'state-level disagreement: info bytes on disk differ from the model',
                         dict(case, impl=esc(data), model=rep), section='state')
    run.count('state', bad, 'disagreements')
    if scns:
        run.sample({'level': 'state', 'argv': scns[0]['steps'][0]['argv'], 'cwd': scns[0]['cwd'],
                    'tree': [[e[0], esc(e[1])] for e in scns[0]['tree']]})


def calc_parent(run, thorough):
    import sys
    from common import REPO
    if REPO not in sys.path:
        sys.path.insert(0, REPO)
    from trashcli.put.original_location import OriginalLocation
    from trashcli.put.core.path_maker_type import PathMakerType
    ws = list(words('/ab', 4 if not thorough else 5))
    cases = [(p, v, rel) for p in ws for v in ws if len(v) <= 3 for rel in (True, False)]

    def py(p, v, rel):
        return tok_s(OriginalLocation._calc_parent_path(p, v, PathMakerType.RelativePaths if rel else PathMakerType.AbsolutePaths))
    compare(run, 'calc_parent_path', 'calc_parent_path', py, cases, (tok_s, tok_s, tok_b),
            lambda a, r: ('cpp', a[2], r == tok_s(a[0]), a[1] == '/'), exhaustive=True)

    class FS:
        def __init__(self, rp):
            self.rp = rp

        def parent_realpath2(self, path):
            self.asked = os.path.dirname(path)
            return self.rp
    ws2 = list(words('/.a', 4))
    cases2 = [(p, pr, v, rel) for p in ws2 if p for pr in ['/', '/a', '/a/b', '/v', '/v/a'] for v in ['/', '/a', '/v']
              for rel in (True, False)]

    def py2(p, pr, v, rel):
        fs = FS(pr)
        r = OriginalLocation(fs).for_file(p, PathMakerType.RelativePaths if rel else PathMakerType.AbsolutePaths, v)
        return tok_s(r)
    compare(run, 'orig_loc_result', 'orig_loc_result', py2, cases2, (tok_s, tok_s, tok_s, tok_b),
            lambda a, r: ('olr', a[3], a[2], r[:4]))

    def py3(p):
        fs = FS('/x')
        OriginalLocation(fs).for_file(p, PathMakerType.AbsolutePaths, '/')
        return tok_s(fs.asked)
    compare(run, 'orig_loc_parent_arg', 'orig_loc_parent_arg', py3, [(p,) for p in ws2 if p], (tok_s,),
            lambda a, r: ('olp', r), exhaustive=True)


def run(run, thorough):
    fn_codec.quote_unquote(run, thorough)
    fn_codec.utf8(run, thorough)
    ds = fn_codec.dates(run, thorough)
    fn_codec.trashinfo(run, thorough, ds)
    fn_codec.posix(run, thorough)
    calc_parent(run, thorough)
    state_level(run, thorough)
    concurrent_writers(run, thorough)
    decode_on_two_volumes(run, thorough)


def decode_on_two_volumes(run, thorough):
    """a relative Path= decodes back to the absolute original location against the top directory of ITS OWN volume - for every reader and
    every way of printing it: entries on two volumes (and one in the home trash), read by trash-list, trash-list --files, trash-list --size
    --files and trash-restore's listing, all in one run over all the directories"""
    rng = run.rng
    scns, metas = [], []
    for k in range(24 if not thorough else 300):
        names = [gen_name(rng).replace('\n', 'N') for _ in range(3)]
        if any('\\udc' in ascii(x) for x in names):
            names = ['pl ain%d' % k, 'per%%cent%d' % k, 'caf\xe9 %d' % k]
        files = ['/vol1/d/' + names[0], '/vol2/' + names[1], '/home/u/' + names[2]]
        order = rng.choice([['/vol1', '/vol2'], ['/vol2', '/vol1']])
        tree = [['d', '/home/u', 0o755], ['d', '/vol1/d', 0o755], ['d', '/vol2', 0o755]] + [['f', f, 'data'] for f in files]
        steps = [{'cmd': 'put', 'argv': ['--', f], 'now': [2024, 1, 2, 3, 4, 5 + i, 0]} for i, f in enumerate(files)]
        steps += [{'cmd': 'list', 'argv': []}, {'cmd': 'list', 'argv': ['--files']}, {'cmd': 'list', 'argv': ['--size', '--files']},
                  {'cmd': 'restore', 'argv': ['/'], 'stdin': '\n'}]
        scns.append({'tree': tree, 'mounts': order, 'cwd': '/', 'uid': rng.choice([0, 1000]), 'env': {'HOME': '/home/u', 'TRASH_VOLUMES': ':'.join(['/'] + order)}, 'steps': steps})
        metas.append({'files': files})
    by_id = {id(s): m for s, m in zip(scns, metas)}
    for scn, res in engine.run_all(run, 'two-volumes', scns):
        judge_two_volumes(run, scn, by_id[id(scn)], res)


def judge_two_volumes(run, scn, meta, res, section='two-volumes-state'):
    run.count(section)
    outs = [o['stdout'] for o in res['steps'][3:7]]
    case = {'scenario': scn, 'two_volumes': meta, 'outputs': [esc(x[-400:]) for x in outs]}
    for f in meta['files']:
        for which, text in zip(('trash-list', 'trash-list --files', 'trash-list --size --files', "trash-restore's listing"), outs):
            ok = any((ln.endswith(' ' + f) if ' -> ' not in ln else (' ' + f + ' -> ') in ln) for ln in text.split('\n'))
            if not ok:
                run.fail('oracle', '%s does not show the absolute original location an entry was trashed from (its Path= is relative to the top '
                         'directory of its own volume)' % which, dict(case, location=esc(f), reader=which), key='location-not-decoded:' + which, section=section)
                return
    run.nontriv(('two-volumes', tuple(scn['mounts']), scn['uid']))


def concurrent_writers(run, thorough):
    """two trash-puts of same-named entries under the lock-step scheduler of C04: whatever the interleaving, each .trashinfo that results
    records the location and date of the entry lying next to it (the writer of one entry never shows through in the record of another)"""
    import p_c04
    scheds = p_c04.schedules_systematic()
    picks = scheds if thorough else scheds[:14] + scheds[-3:]
    for shape, sched in picks:
        scn, steps, victims = p_c04.make_scn(2, ('f', 'f'), 'empty')
        res = sandbox.execute_concurrent(scn, steps, sched)
        p_c04.judge(run, dict(scn, steps=steps), res, victims, 'empty', shape, 'concurrent-writers')


def replay(run, payload):
    case = payload.get('case') or {}
    if 'schedule' in case:
        import p_c04
        return p_c04.replay(run, payload)
    if 'two_volumes' in case:
        res = sandbox.execute(case['scenario'])
        if res.get('steps'):
            judge_two_volumes(run, case['scenario'], case['two_volumes'], res, 'replay')
        return
    if 'args_tok' in case:
        rep = model_batch([(case['function'], case['args_tok'])])[0]
        print('model now says:', rep, '| recorded impl:', case.get('impl'), '| recorded model:', case.get('model'))
        if rep != case.get('impl'):
            run.fail('tie', 'function-level disagreement persists', case)
        return
    if 'scenario' in case and isinstance(case.get('meta'), dict) and 'where' in case['meta'] and len(case['scenario'].get('steps') or []) == 2:
        from common import unesc
        meta = {k: unesc(v) for k, v in case['meta'].items()}
        res = sandbox.execute(case['scenario'])
        reqs, pend = [], []
        judge_state(run, case['scenario'], meta, res, reqs, pend, section='replay')
        for (c2, data), rep in zip(pend, model_batch(reqs) if reqs else []):
            if rep != 'S' + tok_s(data):
                run.fail('tie', 'state-level disagreement: info bytes on disk differ from the model', dict(c2, impl=esc(data), model=rep), section='replay')
        for st in res['steps']:
            print('exit', st['exit'], 'exc', st['exc'], 'stdout:', esc(st['stdout']), 'stderr:', esc(st['stderr'][-300:]))
        return
    if 'scenario' in case:
        res = sandbox.execute(case['scenario'])
        for st in res['steps']:
            print('exit', st['exit'], 'exc', st['exc'])
            print('stdout:', esc(st['stdout']))
            print('stderr:', esc(st['stderr']))
        for p, v in sorted(res['steps'][0]['after'].items()):
            if '/info/' in p:
                print(esc(p), esc(v[2]) if isinstance(v[2], (bytes, str)) else v[2])
