"""Runs the repository's pinned suite and checks every test of BASELINE.json's stable_pass passes."""
import json, subprocess, sys, tempfile, os
import xml.etree.ElementTree as ET
b = json.load(open('/root/.vp/BASELINE.json'))
out = tempfile.mktemp(suffix='.xml')
cmd = b['cmd'].replace('<file>', out)
r = subprocess.run(cmd, shell=True, stdout=subprocess.PIPE, stderr=subprocess.STDOUT, text=True)
root = ET.parse(out).getroot()
passed = set()
for tc in root.iter('testcase'):
    if not any(ch.tag in ('failure', 'error', 'skipped') for ch in tc):
        passed.add('%s::%s' % (tc.get('classname'), tc.get('name')))
os.unlink(out)
missing = [t for t in b['stable_pass'] if t not in passed]
print('stable_pass %d, passing now %d, missing %d' % (len(b['stable_pass']), len(passed), len(missing)))
for m in missing[:20]:
    print('  NOT PASSING:', m)
sys.exit(1 if missing else 0)
