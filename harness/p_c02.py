"""C02 - put then restore returns the exact entry to its exact original path."""
import copy
import os

import engine
import putlib
import sandbox
import scen
from common import esc

RULE = ("function level: the C03 cores (writer/readers/location arithmetic); trace level: exact correspondence of every put / restore / list / rm / "
        "empty run of the histories with the Coq models; state level: for generated names (spaces, newlines, '%', leading '-', non-ASCII, "
        "'=' '[' '+' '#' '?', names ending in .trashinfo, 200+ bytes), every entry kind (file, empty file, directory tree with links and "
        "odd modes, symlink to file/dir/nothing), every trash directory kind (home, $topdir/.Trash/$uid, $topdir/.Trash-$uid, --trash-dir), "
        "every --sort mode, restoring from the original directory, an ancestor, or the path itself, with a history of other puts / purges / "
        "restores in between and the original parent directory removed meanwhile: the entry is listed, and choosing its index recreates at "
        "exactly the original absolute path a subtree identical in content, tree, link targets, modes and mtimes; missing parents are created; "
        "exactly that pair leaves the trash; nothing else changes. distinct = (name class, kind, dir kind, sort, scope kind, parent removed?).")
ASSUMPTIONS = ["the restore sees the same mount list trash-put saw"]

NAMES = ['...', '....', '.bashrc', 'plain', 'a b', ' lead', 'trail ', 'n\nl', 'per%41cent', '100%', '-rf', '--', 'é', '€uro日本', 'eq=x', '[br]', 'a+b', '#h', 'q?', 't\tab',
         'x.trashinfo', '.hidden', 'a\\b', "q'uote", 'dq"', 'L' * 200, '~t', '*star*']


RULE += ' Since round 8 a quarter of the round trips have foreign neighbours in the home trash (an undated entry of the same original path, an info file that is not UTF-8).'


def gen(rng, n):
    scns, metas = [], []
    for i in range(n):
        lay = scen.Layout(rng, nested=False)
        for v in lay.all_vols:
            if lay.top[v][1] == 'file':
                lay.top[v][1] = 'absent'
                lay.tree = [e for e in lay.tree if e[1] != lay.top2(v)]
        where = rng.choice(['home', 'vol', 'vol'])
        root = lay.home if where == 'home' else rng.choice(lay.vols)
        # a directory on the root volume whose NAME begins with the name of a volume (/vol1x next to /vol1): a link in it to a directory
        # on that volume, named with a trailing slash (as shell completion writes it), goes to the volume's trash directory although its
        # parent is not on the volume - the recorded Path stays absolute
        sibcase = bool(lay.vols) and rng.random() < 0.08
        if sibcase:
            sibvol = rng.choice(lay.vols)
            where, root = 'sib', sibvol + 'x'
        sub = rng.choice(['w', 'w/x', 'w/x/y z']) if rng.random() > 0.06 else 'w/' + '/'.join(['\u6f22' * 80] * rng.choice([6, 7]))
        parent = root + '/' + sub
        name = rng.choice(NAMES)
        full = parent + '/' + name
        kind = rng.choice(['f', 'e', 'd', 'lf', 'ld', 'lx']) if not sibcase else 'ld_vol'
        nodes = scen.canary() + [['d', parent, 0o755]]
        if sibcase:
            nodes += [['d', sibvol + '/realpics', 0o755], ['f', sibvol + '/realpics/p1', 'p1'], ['l', full, sibvol + '/realpics']]
        if kind == 'f':
            nodes.append(['f', full, 'the content', rng.choice([0o644, 0o600, 0o755, 0o444])])
        elif kind == 'e':
            nodes.append(['f', full, ''])
        elif kind == 'd':
            nodes += [['d', full, rng.choice([0o755, 0o700, 0o750, 0o555, 0o500])], ['f', full + '/in', 'in', 0o640], ['d', full + '/s', 0o711], ['l', full + '/s/l', '../in'],
                      ['f', full + '/s/deep', 'deep'], ['l', full + '/dangling', 'no']]
        elif kind == 'lf':
            nodes.append(['l', full, '/canary/file'])
        elif kind == 'ld':
            nodes.append(['l', full, '/canary/dir'])
        elif kind == 'ld_vol':
            pass
        else:
            nodes.append(['l', full, 'no/where'])
        nodes += [['f', parent + '/sibling', 'sib'], ['f', root + '/other1', 'o1'], ['f', lay.home + '/other2', 'o2']]
        tdopt = []
        putenv = {}
        r_td = rng.random()
        if r_td < 0.15:
            tdopt = ['--trash-dir', root + '/mytd']
        elif r_td < 0.27:
            # the user's trash directory named through a symbolic link that lives on another volume than the directory itself
            other = rng.choice([x for x in [lay.home] + lay.vols if x != root] or [lay.home])
            nodes += [['d', root + '/.mytd', 0o700], ['l', other + '/tdlink', root + '/.mytd']]
            tdopt = ['--trash-dir', other + '/tdlink']
        elif where == 'vol' and rng.random() < 0.3:
            # no usable trash directory on the entry's own volume: the home fallback moves it ACROSS file systems (copy + delete),
            # and the restore moves it back the same way: content, modes and mtimes must survive both copies
            lay.top[root] = ['file', 'file']
            lay.tree = [e for e in lay.tree if not (e[1] == lay.j(root, '.Trash') or e[1].startswith(lay.j(root, '.Trash') + '/')
                                                    or e[1] == lay.top2(root) or e[1].startswith(lay.top2(root) + '/') or e[1] == lay.j(root, 'realtrash'))]
            lay.tree += [['f', lay.j(root, '.Trash'), 'not a directory'], ['f', lay.top2(root), 'not a directory']]
            tdopt = ['--home-fallback']
            putenv = {'TRASH_ENABLE_HOME_FALLBACK': '1'}
        if sibcase:
            tdopt, putenv = [], {}
        if not tdopt and rng.random() < 0.15:
            # what a purge killed between its two removals leaves behind: a payload without .trashinfo, of the SAME name, in the
            # directories the entry can go to - the new entry must get another name and come back alone
            for td in [lay.home_trash] + [lay.top2(v) for v in lay.all_vols if lay.top[v][1] != 'file']:
                ok = rng.choice(['d', 'd', 'f'])
                if ok == 'd':
                    nodes += [['d', td + '/files/' + name, 0o755], ['f', td + '/files/' + name + '/old', 'left over'], ['d', td + '/info', 0o700]]
                else:
                    nodes += [['f', td + '/files/' + name, 'left over'], ['d', td + '/info', 0o700]]
        if not tdopt and rng.random() < 0.25 and full.isprintable() and all(ord(c) < 0xd800 or ord(c) > 0xdfff for c in full):
            # what other implementations and interrupted runs leave in the home trash, next to the entry made by trash-put: an entry of
            # the SAME original path without a (valid) date, and an info file that is not UTF-8 - neither may keep ours from coming back
            ht = lay.home_trash
            if rng.random() < 0.6:
                nodes += [['f', ht + '/info/frn_same.trashinfo', '[Trash Info]\nPath=%s\n%s' % (scen.quote(full), rng.choice(['', 'DeletionDate=yesterday\n', 'DeletionDate=\n']))],
                          ['f', ht + '/files/frn_same', 'foreign']]
            if rng.random() < 0.6:
                nodes += [['f', ht + '/info/frn_latin1.trashinfo', b'[Trash Info]\nPath=/home/u/caf\xe9\nDeletionDate=2001-01-01T00:00:00\n'],
                          ['f', ht + '/files/frn_latin1', 'foreign']]
        if not tdopt and rng.random() < 0.25:
            # earlier entries whose original location exists again (the file was re-created): they are offered like any other, under
            # their own numbers - the number printed next to OUR entry is the number that restores it
            for nm, loc in (('earlier1', root + '/other1'), ('earlier2', lay.home + '/other2'), ('earlier0', parent + '/sibling')):
                if rng.random() < 0.7:
                    nodes += scen.entry(lay.home_trash, nm, loc, rng.choice(['2001-01-01T00:00:00', '2030-01-01T00:00:00']), 'f', data='an older version')
        sort = rng.choice(['date', 'path', 'none', None])
        scope_kind = rng.choice(['path', 'parent-arg', 'cwd-parent', 'ancestor', 'root'])
        steps = [{'cmd': 'put', 'argv': tdopt + ['--', full + ('/' if sibcase else '')], 'now': [2024, 5, 6, 7, 8, 9, 0], 'env': putenv}]
        if where == 'vol' and not tdopt and lay.top[root][0] == 'absent' and rng.random() < 0.35:
            # the entry went to $topdir/.Trash-$uid; afterwards the administrator sets up a proper sticky $topdir/.Trash (and the user's
            # directory in it appears): entries of BOTH directories of the volume are the user's and are offered
            steps.append({'cmd': 'fs', 'ops': [['mkdir', root + '/.Trash/%d/info' % lay.uid], ['mkdir', root + '/.Trash/%d/files' % lay.uid],
                                               ['chmod', root + '/.Trash', 0o1777], ['chmod', root + '/.Trash/%d' % lay.uid, 0o700]]})
        # a history in between
        hist = []
        for _ in range(rng.randint(0, 3)):
            r = rng.random()
            if r < 0.4:
                hist.append({'cmd': 'put', 'argv': tdopt + ['--', rng.choice([root + '/other1', lay.home + '/other2', parent + '/sibling'])],
                             'now': [2024, 5, 6, 7, 9, rng.randint(0, 59), 0], 'env': putenv})
            elif r < 0.6:
                hist.append({'cmd': 'rm', 'argv': [rng.choice(['zzz*', 'other1', 'no-such'])]})
            elif r < 0.8:
                hist.append({'cmd': 'empty', 'argv': ['9999', '-f'], 'env': {'TRASH_DATE': '2024-06-01T00:00:00'}})
            else:
                hist.append({'cmd': 'list', 'argv': []})
        seen = set()
        hist = [h for h in hist if not (h['cmd'] == 'put' and (h['argv'][-1] in seen or seen.add(h['argv'][-1])))]
        steps += hist
        rmparent = rng.random() < 0.3
        if rmparent:
            steps.append({'cmd': 'fs', 'ops': [['rmtree', root + '/w']]})
        if scope_kind == 'path':
            cwd, arg = '/', [full]
        elif scope_kind == 'parent-arg':
            cwd, arg = '/', [parent]
        elif scope_kind == 'cwd-parent':
            cwd, arg = (parent if not rmparent else root), ([] if not rmparent else [parent])
        elif scope_kind == 'ancestor':
            cwd, arg = '/', [root]
        else:
            cwd, arg = '/', ['/']
        rargv = arg + (['--sort', sort] if sort else []) + ([tdopt[0], tdopt[1]] if len(tdopt) == 2 else []) + (['--overwrite'] if rng.random() < 0.2 else [])
        steps.append({'cmd': 'restore', 'argv': rargv, 'stdin': '\n', 'cwd_override': cwd})
        if scope_kind == 'cwd-parent' and not rmparent and rng.random() < 0.4:
            # the directory was entered through a symbolic link and the shell says so in $PWD: the entry recorded its PHYSICAL parent
            # (trash-put resolves it), and that is the directory trash-restore is asked about
            nodes.append(['l', '/plnk', parent])
            steps[-1]['cwd_override'] = '/plnk'
            steps[-1]['env'] = {'PWD': '/plnk'}
        scn = lay.scenario(steps, cwd='/' if steps[-1]['cwd_override'] == '/plnk' else cwd, extra=nodes)
        scns.append(scn)
        metas.append({'full': full, 'kind': kind, 'where': where, 'sort': sort, 'scope': scope_kind, 'rmparent': rmparent, 'name': name,
                      'td': len(tdopt) == 2, 'xdev': bool(putenv), 'parent': parent})
    return scns, metas


def find_index(stdout, full):
    """index of the (first) listing line that ends with the entry's path and carries the put date"""
    want = ' 2024-05-06 07:08:09 ' + full
    text = '\n' + stdout
    pos = text.find(want + '\n')
    if pos < 0:
        pos = text.find(want)
        if pos < 0:
            return None
    head = text[:pos]
    line_start = head.rfind('\n') + 1
    idx = head[line_start:].strip()
    return int(idx) if idx.isdigit() else None


def run(run, thorough):
    import fn_codec
    fn_codec.quote_unquote(run, thorough)
    scns, metas = gen(run.rng, 350 if not thorough else 5000)
    # phase 1: put, history, listing (empty reply) -> find the index
    first = sandbox.execute_many(scns)
    second, idxs = [], []
    for scn, meta, res in zip(scns, metas, first):
        if res.get('harness_error') or not res.get('steps'):
            run.fail('harness', 'sandbox failure', {'error': res.get('harness_error'), 'scenario': scn})
            second.append(None)
            idxs.append(None)
            continue
        lst = res['steps'][-1]
        put = res['steps'][0]
        if put['exit'] != 0:
            long_name = len(os.fsencode(meta['name'])) + len('.trashinfo') > 255
            if not long_name:
                run.fail('oracle', 'trash-put of an ordinary entry failed', {'scenario': scn, 'stderr': put['stderr'][-400:]}, key='put-failed', section='roundtrip')
            second.append(None)
            idxs.append(None)
            continue
        i = find_index(lst['stdout'], meta['full'])
        if i is None:
            run.fail('oracle', 'a trashed entry is not offered by trash-restore from its original directory / an ancestor / its own path',
                     {'scenario': scn, 'meta': meta, 'listing': esc(lst['stdout'][-800:]), 'stderr': lst['stderr'][-300:]}, key='not-listed', section='roundtrip')
            second.append(None)
            idxs.append(None)
            continue
        s2 = copy.deepcopy(scn)
        s2['steps'][-1]['stdin'] = '%d\n' % i
        second.append(s2)
        idxs.append(i)
    todo = [s for s in second if s is not None]
    out = engine.run_all(run, 'roundtrip', todo)
    by_id = {id(s): m for s, m in zip(second, metas) if s is not None}
    for scn, res in out:
        meta = by_id[id(scn)]
        judge(run, scn, meta, res)
    if out:
        run.sample({'level': 'state', 'name': esc(metas[0]['name']), 'kind': metas[0]['kind'], 'sort': metas[0]['sort'], 'scope': metas[0]['scope']})


def judge(run, scn, meta, res, section='roundtrip'):
    run.count(section)
    before = res['before']
    steps = res['steps']
    full = meta['full']
    orig = sandbox.subtree(before, full)
    pre = steps[-2]['after'] if len(steps) >= 2 else before       # the state just before the restore
    fin = steps[-1]['after']
    rst = steps[-1]
    case = {'scenario': scn, 'meta': {k: (esc(v) if isinstance(v, str) else v) for k, v in meta.items()}, 'restore_exit': rst['exit'],
            'restore_stderr': rst['stderr'][-300:], 'listing': esc(rst['stdout'][-400:])}
    back = sandbox.subtree(fin, full)
    if rst['exit'] != 0 or putlib.loose(back) != putlib.loose(orig):
        diff = [(p, orig.get(p), back.get(p)) for p in sorted(set(orig) | set(back)) if putlib.loose(orig).get(p) != putlib.loose(back).get(p)][:5]
        run.fail('oracle', 'put then restore did not bring back the identical entry at its original path', dict(case, differences=diff),
                 key='roundtrip-differs', section=section)
        return
    # exactly that pair left the trash, nothing else changed
    ch = engine.changed_paths(pre, fin)
    ok_area = lambda p: engine.under(p, full) or engine.under(full, p)
    tds = engine.trash_dirs_in(pre)
    gone_pairs = []
    for td in tds:
        eb, ea = engine.entries_of(pre, td), engine.entries_of(fin, td)
        for nme, e in eb.items():
            if ea.get(nme) != e:
                gone_pairs.append((td, nme, ea.get(nme)))
    if len(gone_pairs) != 1 or gone_pairs[0][2] is not None:
        run.fail('oracle', 'restoring one entry did not remove exactly its payload and .trashinfo from the trash',
                 dict(case, changed_entries=[(t, esc(n), str(a)[:80]) for t, n, a in gone_pairs]), key='trash-delta', section=section)
    other = [p for p in ch if not ok_area(p) and not any(engine.under(p, td) for td in tds)]
    if other:
        run.fail('oracle', 'the restore changed something else', dict(case, changed=[esc(p) for p in other[:6]]), key='collateral', section=section)
    run.nontriv((esc(meta['name'])[:12], meta['kind'], meta['where'], meta['td'], meta.get('xdev'), meta['sort'], meta['scope'], meta['rmparent']))


def replay(run, payload):
    case = payload.get('case') or {}
    scn = case.get('scenario')
    if not scn:
        return
    res = sandbox.execute(scn)
    for st, o in zip(scn['steps'], res['steps']):
        if st['cmd'] != 'fs':
            print(st['cmd'], [esc(a) for a in st['argv']], 'exit', o['exit'], esc(o['stderr'][:200]))
    meta = case.get('meta')
    if meta and scn['steps'][-1]['cmd'] == 'restore':
        def un(v):
            if isinstance(v, str) and v.startswith('cp:'):
                return ''.join(chr(int(h, 16)) for h in v[3:].split('.'))
            return v
        meta = {k: un(v) for k, v in meta.items()}
        if scn['steps'][-1]['stdin'].strip() == '':
            i = find_index(res['steps'][-1]['stdout'], meta['full'])
            print('index of the entry in the listing:', i)
            if i is None:
                run.fail('oracle', 'not listed', case, key='not-listed')
            return
        # as in the main run: the number typed is the number THIS tree prints next to the entry (first pass: empty reply)
        s1 = copy.deepcopy(scn)
        s1['steps'][-1]['stdin'] = '\n'
        r1 = sandbox.execute(s1)
        i = find_index(r1['steps'][-1]['stdout'], meta['full']) if r1.get('steps') else None
        print('index of the entry in the listing:', i)
        if i is None:
            run.fail('oracle', 'a trashed entry is not offered by trash-restore', case, key='not-listed')
            return
        s2 = copy.deepcopy(scn)
        s2['steps'][-1]['stdin'] = '%d\n' % i
        judge(run, s2, meta, sandbox.execute(s2))
