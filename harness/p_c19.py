"""C19 - a malformed trash entry never prevents the well-formed ones from being handled."""
import copy
import os

import engine
import sandbox
import scen
from common import esc

RULE = ("trace level: exact correspondence of every run with the Coq models; differential state level: each scenario is run TWICE - a trash "
        "holding well-formed entries mixed with malformed neighbours (non-.trashinfo files in info/, empty / truncated / binary / non-UTF-8 / "
        "directory-typed .trashinfo, missing Path, missing or bad DeletionDate, duplicated keys, CRLF, info without payload, payload without "
        "info, '.trashinfo' / '..trashinfo' names) in every directory order, and the same trash WITHOUT the malformed ones - for trash-list, "
        "trash-restore (listing, and restoring a well-formed entry by the index it is printed at), trash-rm PATTERN and trash-empty [DAYS]: "
        "output and effects restricted to the well-formed entries must be identical in both runs, no traceback, and the exit status must not "
        "turn non-zero because of a malformed neighbour. distinct = (command, malformed kinds, #well-formed, order).")
ASSUMPTIONS = ["an entry with a Path but no/invalid date is 'malformed' for the purpose of this check: its own line/offer may appear, the others' must be unchanged"]


RULE += ' Since round 8: neighbours with percent-encoded non-UTF-8 Path= values and names carrying str.format / % directives.'


def gen(rng, n):
    pairs, metas = [], []
    for i in range(n):
        lay = scen.Layout(rng, nested=False, home_on_own_volume=False, xdg='unset', nvols=1)
        td = rng.choice([lay.home_trash] + [lay.top2(v) for v in lay.vols if lay.top[v][1] == 'dir'])
        vol = '/' if td == lay.home_trash else os.path.dirname(td)
        good, nodes_good = [], []
        for k in range(rng.randint(1, 4)):
            name = 'good%d' % k
            rel = 'keep/g%d' % k
            pathv = ('/home/u/' + rel) if td == lay.home_trash else rel
            full = pathv if td == lay.home_trash else vol + '/' + rel
            date = rng.choice(['2001-01-01T00:00:00', '2024-01-01T00:00:00', '2023-06-15T08:09:10'])
            nodes_good += scen.entry(td, name, pathv, date, rng.choice(['f', 'd', 'l']))
            good.append({'name': name, 'full': full, 'date': date})
        nodes_bad, kinds = [], []
        for k in range(rng.randint(1, 4)):
            mk = rng.choice(scen.MALFORMED + ['dotdot_trashinfo', 'undated_same_path', 'baddate_same_path', 'tz_date', 'tz_date', 'suffix_twin', 'suffix_twin',
                                              'link_info', 'link_info', 'link_other', 'pct_nonutf8', 'brace_name', 'brace_name', 'edge_date', 'edge_date', 'undated_lone', 'undated_lone'])
            kinds.append(mk)
            if mk in ('link_info', 'link_other'):
                # things in info/ that are links: to nowhere, to themselves, to a directory - under a .trashinfo name (with a payload) or not
                tgt = rng.choice(['no/such/info', 'loop%d.trashinfo' % k, '/canary/dir'])
                nm = ('loop%d' % k if tgt.startswith('loop') else 'lnk%d' % k) + ('.trashinfo' if mk == 'link_info' else '.txt')
                nodes_bad.append(['l', td + '/info/' + nm, tgt])
                if mk == 'link_info':
                    nodes_bad.append(['f', td + '/files/' + nm[:-10], 'p'])
                continue
            if mk in ('undated_same_path', 'baddate_same_path'):
                # shares its Path with a well-formed entry: sort keys tie on the path
                g = rng.choice(good)
                pv = g['full'] if td == lay.home_trash else g['full'][len(vol.rstrip('/')) + 1:]
                txt = '[Trash Info]\nPath=%s\n' % pv + ('' if mk == 'undated_same_path' else 'DeletionDate=yesterday\n')
                nodes_bad += [['f', td + '/info/same%d.trashinfo' % k, txt], ['f', td + '/files/same%d' % k, 'p']]
            elif mk == 'tz_date':
                nodes_bad += [['f', td + '/info/tz%d.trashinfo' % k, '[Trash Info]\nPath=/home/u/tz%d\nDeletionDate=2001-01-01T00:00:00%s\n' % (k, rng.choice(['+01:00', 'Z', '.5', '-0500']))],
                              ['f', td + '/files/tz%d' % k, 'p']]
            elif mk == 'suffix_twin':
                # an info file WITHOUT payload named <name of a well-formed entry>.trashinfo.trashinfo (old, matched by '*'): handling it
                # must not touch files/<name>, which belongs to the well-formed entry
                g = rng.choice(good)
                nodes_bad.append(['f', td + '/info/' + g['name'] + '.trashinfo.trashinfo', scen.TI % ('/home/u/twin%d' % k, '2001-01-01T00:00:00')])
            elif mk == 'undated_lone':
                # no date AND no payload: nothing to go by at all - kept, and no reason to stop
                nodes_bad += [['f', td + '/info/lone%d.trashinfo' % k, '[Trash Info]\nPath=/home/u/lone%d\n%s' % (k, rng.choice(['', 'DeletionDate=soon\n']))]]
            elif mk == 'edge_date':
                # a date at the edge of what datetime can hold: arithmetic on it must not overflow into an abort
                nodes_bad += [['f', td + '/info/edge%d.trashinfo' % k, '[Trash Info]\nPath=/home/u/edge%d\nDeletionDate=%s\n' %
                               (k, rng.choice(['9999-12-31T23:59:59', '9999-12-30T00:00:00', '0001-01-01T00:00:00', '0001-01-02T00:00:00']))],
                              ['f', td + '/files/edge%d' % k, 'p']]
            elif mk == 'pct_nonutf8':
                # percent-encoded bytes that are not UTF-8 (a Latin-1 name written by another implementation)
                nodes_bad += [['f', td + '/info/pct%d.trashinfo' % k, '[Trash Info]\nPath=%s\nDeletionDate=2001-01-01T00:00:00\n' %
                               rng.choice(['/home/u/caf%E9', 'caf%E9.txt', '/home/u/%FF%FE', '/home/u/a%C3'])], ['f', td + '/files/pct%d' % k, 'p']]
            elif mk == 'brace_name':
                # an unparsable info file whose NAME carries characters that mean something to str.format / % (it ends up in a message)
                nm = rng.choice(['br{}%d', 'br{0}%d', 'br{x}%d', 'br%%s%d', 'br{%d', 'br%%(a)s%d']) % k
                nodes_bad += [['f', td + '/info/' + nm + '.trashinfo', rng.choice(['[Trash Info]\nDeletionDate=2001-01-01T00:00:00\n', '', 'Path'])],
                              ['f', td + '/files/' + nm, 'p']]
            elif mk == 'dotdot_trashinfo':
                nodes_bad.append(['f', td + '/info/' + rng.choice(['..trashinfo', '...trashinfo']), scen.TI % ('/home/u/dd', '2001-01-01T00:00:00')])
            else:
                nodes_bad += scen.malformed(rng, td, mk, 'x%d' % k)
        cmd = rng.choice(['list', 'restore_list', 'restore_one', 'rm', 'empty', 'empty_days'])
        if cmd == 'restore_one' and any(k in ('undated_same_path', 'baddate_same_path') for k in kinds):
            cmd = 'restore_list'          # the neighbour is offered at the same path: an index is not comparable between the two runs
        order = rng.choice(['sorted', 'reverse', rng.randint(1, 999)])
        if cmd == 'list':
            step = {'cmd': 'list', 'argv': []}
        elif cmd == 'restore_list':
            step = {'cmd': 'restore', 'argv': ['/', '--sort', rng.choice(['date', 'path', 'none'])], 'stdin': '\n'}
        elif cmd == 'restore_one':
            g = rng.choice(good)
            step = {'cmd': 'restore', 'argv': [g['full'], '--sort', rng.choice(['date', 'path'])], 'stdin': '0\n'}
        elif cmd == 'rm':
            step = {'cmd': 'rm', 'argv': [rng.choice(['g0', 'g*', '*', 'g[12]', vol.rstrip('/') + '/keep/*' if td != lay.home_trash else '/home/u/keep/*'])]}
        elif cmd == 'empty':
            step = {'cmd': 'empty', 'argv': ['-f']}
        else:
            step = {'cmd': 'empty', 'argv': [str(rng.choice([1, 400, 9000])), '-f'], 'env': {'TRASH_DATE': '2024-01-02T00:00:00'}}
        step['listdir'] = order
        a = lay.scenario([step], cwd='/', extra=scen.canary() + nodes_good + nodes_bad)
        b = lay.scenario([copy.deepcopy(step)], cwd='/', extra=scen.canary() + nodes_good)
        pairs.append((a, b))
        metas.append({'td': td, 'good': good, 'kinds': kinds, 'cmd': cmd})
        # what a replay needs to judge the same way: the twin scenario (same trash without the malformed neighbours) and the meta
        a['judge_meta'] = {'meta': metas[-1], 'twin_tree': b['tree']}
    return pairs, metas


def good_lines(text, good):
    return sorted(l for l in text.split('\n') if any(l.endswith(g['date'].replace('T', ' ') + ' ' + g['full']) for g in good))


def judge(run, a, b, meta, ra, rb, section='differential'):
    run.count(section)
    oa, ob = ra['steps'][0], rb['steps'][0]
    case = {'scenario': a, 'without_malformed': b['tree'][-3:], 'kinds': meta['kinds'], 'cmd': meta['cmd'], 'exit_with': oa['exit'], 'exit_without': ob['exit'],
            'stderr_with': esc(oa['stderr'][-500:]), 'stdout_with': esc(oa['stdout'][-400:]), 'stdout_without': esc(ob['stdout'][-400:])}
    kk = tuple(sorted(set(meta['kinds'])))
    if oa['exc'] is not None:
        run.fail('oracle', 'a malformed neighbour made %s end with a traceback' % a['steps'][0]['cmd'], dict(case, exc=oa['exc']),
                 key='traceback:%s' % meta['cmd'], section=section)
        return
    if oa['exit'] != ob['exit']:
        run.fail('oracle', 'a malformed neighbour changed the exit status', case, key='exit-differs:%s' % meta['cmd'], section=section)
    good = meta['good']
    cmd = meta['cmd']
    if cmd in ('list', 'restore_list', 'restore_one'):
        if cmd == 'list':
            la, lb = good_lines(oa['stdout'], good), good_lines(ob['stdout'], good)
        else:
            la = sorted(l[5:] for l in good_lines(oa['stdout'], good))
            lb = sorted(l[5:] for l in good_lines(ob['stdout'], good))
        if la != lb:
            run.fail('oracle', 'the well-formed entries are listed/offered differently when malformed neighbours are present',
                     dict(case, with_malformed=la, without=lb), key='output-differs:%s' % cmd, section=section)
    # effects on the well-formed entries
    td = meta['td']
    ea, eb = engine.entries_of(oa['after'], td), engine.entries_of(ob['after'], td)
    for g in good:
        if ea.get(g['name']) != eb.get(g['name']):
            run.fail('oracle', 'a well-formed entry is treated differently when malformed neighbours are present',
                     dict(case, entry=g, with_malformed=str(ea.get(g['name']))[:150], without=str(eb.get(g['name']))[:150]),
                     key='effect-differs:%s' % cmd, section=section)
            break
        da, db = sandbox.subtree(oa['after'], g['full']), sandbox.subtree(ob['after'], g['full'])
        if engine.strip_mtime(da) != engine.strip_mtime(db):
            run.fail('oracle', 'a well-formed entry is restored differently when malformed neighbours are present', dict(case, entry=g),
                     key='restore-differs', section=section)
            break
    run.nontriv((cmd, kk, len(good), str(a['steps'][0]['listdir'])[:1]))


def run(run, thorough):
    pairs, metas = gen(run.rng, 450 if not thorough else 6000)
    flat = [s for p in pairs for s in p]
    out = engine.run_all(run, 'readers', flat)
    res = {id(s): r for s, r in out}
    for (a, b), meta in zip(pairs, metas):
        if id(a) in res and id(b) in res:
            judge(run, a, b, meta, res[id(a)], res[id(b)])
    listed_index(run, thorough)
    if pairs:
        run.sample({'level': 'differential', 'cmd': metas[0]['cmd'], 'malformed': metas[0]['kinds'], 'well_formed': [g['full'] for g in metas[0]['good']]})


def listed_index(run, thorough):
    """the number printed next to an entry is the number that restores it - also when entries without a DeletionDate (or with a bad one)
    are listed among the dated ones: the listing of a first run is read, the index shown next to a well-formed entry is typed into a
    second run on the same tree, and exactly that entry must come back"""
    rng = run.rng
    cases = []
    for i in range(30 if not thorough else 300):
        home = '/home/u'
        td = home + '/.local/share/Trash'
        nodes = scen.canary() + [['d', home, 0o755]]
        good = []
        for k in range(rng.randint(2, 4)):
            full = home + '/keep/g%d' % k
            nodes += scen.entry(td, 'good%d' % k, full, rng.choice(['2001-01-01T00:00:00', '2024-01-01T00:00:00', '2023-06-15T08:09:10']), 'f', data='content %d' % k)
            good.append({'name': 'good%d' % k, 'full': full, 'content': ('content %d' % k).encode()})
        for k in range(rng.randint(1, 3)):
            kind = rng.choice(['undated', 'baddate', 'tz'])
            txt = '[Trash Info]\nPath=%s/keep/u%d\n' % (home, k) + {'undated': '', 'baddate': 'DeletionDate=yesterday\n', 'tz': 'DeletionDate=2001-01-01T00:00:00Z\n'}[kind]
            nodes += [['f', td + '/info/und%d.trashinfo' % k, txt], ['f', td + '/files/und%d' % k, 'undated payload']]
        sort = rng.choice(['date', 'path', 'none', None])
        argv = ['/'] + (['--sort', sort] if sort else [])
        base = {'tree': nodes, 'mounts': [], 'cwd': '/', 'uid': 0, 'env': {'HOME': home, 'TRASH_VOLUMES': '/'}}
        cases.append((base, argv, good, rng.choice(good), rng.choice(['sorted', 'reverse'])))
    first = [dict(b, steps=[{'cmd': 'restore', 'argv': a, 'stdin': '\n', 'listdir': o}]) for b, a, g, pick, o in cases]
    r1 = sandbox.execute_many(first)
    second, keep = [], []
    for (b, a, g, pick, o), r in zip(cases, r1):
        if not r.get('steps'):
            continue
        idx = None
        for l in r['steps'][0]['stdout'].split('\n'):
            if l[:4].strip().isdigit() and l.endswith(' ' + pick['full']):
                idx = int(l[:4])
        if idx is None:
            run.count('listed-index')
            run.fail('oracle', 'a well-formed entry is not offered when undated entries are in scope', {'scenario': first[len(keep)], 'entry': pick['full'],
                     'stdout': r['steps'][0]['stdout'][-400:]}, key='not-offered', section='listed-index')
            continue
        s2 = dict(b, steps=[{'cmd': 'restore', 'argv': a, 'stdin': '%d\n' % idx, 'listdir': o}])
        s2['judge_meta'] = {'listed_index': True, 'good': [dict(x, content=x['content'].decode()) for x in g], 'pick': pick['full'], 'index': idx}
        second.append(s2)
        keep.append((g, pick, idx))
    r2 = sandbox.execute_many(second) if second else []
    for s2, (g, pick, idx), r in zip(second, keep, r2):
        if r.get('steps'):
            judge_listed_index(run, s2, r)


def judge_listed_index(run, s2, r, section='listed-index'):
    jm = s2['judge_meta']
    run.count(section)
    o = r['steps'][0]
    after = o['after']
    td = '/home/u/.local/share/Trash'
    ents = engine.entries_of(after, td)
    wrong = []
    for x in jm['good']:
        back = after.get(x['full'])
        if x['full'] == jm['pick']:
            if back is None or back[2] != x['content'].encode() or x['name'] in ents:
                wrong.append('the chosen entry %s did not come back' % x['full'])
        elif back is not None or x['name'] not in ents:
            wrong.append('%s was restored although it was not chosen' % x['full'])
    if wrong:
        run.fail('oracle', 'typing the number printed next to an entry did not restore exactly that entry', {'scenario': s2, 'problems': wrong, 'index': jm['index'],
                 'stdout': o['stdout'][-500:], 'exit': o['exit']}, key='index-mismatch', section=section)


def replay(run, payload):
    sc0 = (payload.get('case') or {}).get('scenario') or {}
    if (sc0.get('judge_meta') or {}).get('listed_index'):
        # both steps again: the number is read off THIS tree's listing
        s1 = copy.deepcopy(sc0)
        s1['steps'][0]['stdin'] = '\n'
        r1 = sandbox.execute(s1)
        idx = None
        for l in (r1['steps'][0]['stdout'] if r1.get('steps') else '').split('\n'):
            if l[:4].strip().isdigit() and l.endswith(' ' + sc0['judge_meta']['pick']):
                idx = int(l[:4])
        print('listing:', esc(r1['steps'][0]['stdout'][-400:]) if r1.get('steps') else None, '-> index', idx)
        if idx is None:
            run.fail('oracle', 'a well-formed entry is not offered when undated entries are in scope', {'scenario': s1}, key='not-offered', section='replay')
            return
        s2 = copy.deepcopy(sc0)
        s2['steps'][0]['stdin'] = '%d\n' % idx
        s2['judge_meta']['index'] = idx
        r = sandbox.execute(s2)
        if r.get('steps'):
            judge_listed_index(run, s2, r, 'replay')
        return
    case = payload.get('case') or {}
    a = case.get('scenario')
    if not a:
        return
    ra = sandbox.execute(a)
    o = ra['steps'][0]
    jm = a.get('judge_meta')
    if jm:
        b = {k: v for k, v in a.items() if k != 'judge_meta'}
        b = copy.deepcopy(b)
        b['tree'] = jm['twin_tree']
        rb = sandbox.execute(b)
        if ra.get('steps') and rb.get('steps'):
            print(a['steps'][0]['cmd'], a['steps'][0]['argv'], 'exit', o['exit'], 'exc', o['exc'], '| without the malformed neighbours: exit', rb['steps'][0]['exit'])
            judge(run, a, b, jm['meta'], ra, rb, section='replay')
        return
    print(a['steps'][0]['cmd'], a['steps'][0]['argv'], 'exit', o['exit'], 'exc', o['exc'])
    print(' stdout:', esc(o['stdout'][:600]))
    print(' stderr:', esc(o['stderr'][:600]))
    if o['exc'] is not None:
        run.fail('oracle', 'traceback with a malformed neighbour', case, key=payload.get('key'))
