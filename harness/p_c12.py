"""C12 - trash-rm removes exactly the entries whose original name matches the pattern."""
import os

import engine
import fn_logic
import sandbox
import scen
from common import esc

RULE = ("function level: fnmatch.fnmatchcase / trash-rm's Filter vs the Coq matcher on all patterns of length <= 4 (5 thorough) over "
        "{a b * ? [ ] ! - \\ ^} x all subjects of length <= 2 (3) over {a b - ] ! \\ ^ newline}, plus random bracket-heavy patterns; trace level: "
        "exact correspondence of every trash-rm run with the Coq model; state level: an INDEPENDENT backtracking glob matcher (written in "
        "this file, not fnmatch) decides which entries must disappear - payload and info together - for patterns over literals, *, ?, "
        "[...] and a leading '/', against name sets with case variants, metacharacters in names, the same base name in several directories "
        "and volumes; every other entry must be byte-identical. distinct = (pattern class, #matching, #entries, volumes).")
ASSUMPTIONS = ["case-sensitive matching on code points (fnmatchcase), the whole subject must match"]


# ------------------------------------------------------------------ independent matcher (shell-style, fnmatch dialect)
RULE += " Since round 8: absolute patterns whose wildcard spans '/', and refused-removal (one payload cannot be removed: no entry is left half removed)."


def parse_class(p, i):
    """p[i] == '[': returns (negated, set-test function, index after ']') or None when the bracket is literal"""
    j = i + 1
    n = len(p)
    if j < n and p[j] == '!':
        j += 1
    if j < n and p[j] == ']':
        j += 1
    while j < n and p[j] != ']':
        j += 1
    if j >= n:
        return None
    body = p[i + 1:j]
    neg = body.startswith('!')
    if neg:
        body = body[1:]
    # ranges a-b (a hyphen first or last is literal); an empty range (b < a) matches nothing
    ranges = []
    k = 0
    items = []
    while k < len(body):
        if k + 2 < len(body) and body[k + 1] == '-':
            items.append((body[k], body[k + 2]))
            k += 3
        else:
            items.append((body[k], body[k]))
            k += 1
    return neg, items, j + 1


def gmatch(p, s):
    """does pattern p match the whole of s? (None = cannot decide: exotic bracket forms are left to the function-level core)"""
    if any(ch in p for ch in '\\^&~|') and '[' in p:
        return None
    i = 0
    if not p:
        return s == ''
    c = p[0]
    if c == '*':
        return any(gmatch(p[1:], s[k:]) for k in range(len(s) + 1))
    if c == '?':
        return len(s) >= 1 and gmatch(p[1:], s[1:])
    if c == '[':
        pc = parse_class(p, 0)
        if pc is not None:
            neg, items, nxt = pc
            body = p[1:nxt - 1]
            # hyphen handling that differs from the simple reading: leave to the function-level core
            if '-' in body.strip('!')[1:-1] and any(a > b for a, b in items):
                return None
            if '--' in body:
                return None
            if len(s) < 1:
                return False
            hit = any(a <= s[0] <= b for a, b in items)
            if hit == neg:
                return False
            return gmatch(p[nxt:], s[1:])
    return len(s) >= 1 and s[0] == c and gmatch(p[1:], s[1:])


NAMES = ['report ', 'report', 'end\t', ' lead', 'per%41', 'perA', 'r%20f', 'r f', '100%25', '100%', 'a', 'A', 'b', 'ab', 'abc', 'foo', 'Foo', 'foo.txt', 'foobar', 'a*', 'a?', '[a]', 'a b', '*', '?', 'x.trashinfo', 'é', 'n\nl', '-', '-draft.txt', '--force', '--version', '--help', ']', 'a]',
         'results', 'results=final.txt', 'k=v', 'a=b=c',              # '=' in a name: other tools write it raw into the Path= value
         'cafe\u0301', 'caf\xe9', '\u212b', '\xc5']              # the same glyph spelt in two ways: two different names
PATS = ['results', '*=final.txt', 'k=v', 'k*', 'a=b*', '*=c', 'cafe\u0301', 'caf\xe9', 'caf*', '\u212b', '\xc5', 'report', 'report ', 'report?', '* ', 'end*', 'per%41', 'perA', 'r%20f', 'r f', 'per*', '100%', '100%25', 'a', 'A', 'foo', 'foo*', '*foo', '*', '?', '??', 'a?', 'a*', '[ab]', '[!a]', '[a-c]', '[a-c]*', '*.txt', 'f*o', 'a[*]', 'a[?]', '[[]a]', '[]]',
        'a b', '*\n*', '-', '-*', '--*', '-draft*', '--force', '--version', '--help', '/*', '/*/a', '/home/u/*', '/home/u/d/a', '/vol1/*', '/vol1/d/?', 'x.trashinfo', '*.trashinfo', 'é', '[!a-z]*', 'ab*', '*b*', '/']


def gen(rng, n):
    scns, metas = [], []
    for i in range(n):
        lay = scen.Layout(rng, nested=False, home_on_own_volume=False, xdg=rng.choice(['unset', 'unset', 'empty', 'set']))
        dirs = [(lay.home_trash, '/', 'home')]
        for v in lay.vols:
            if lay.top[v][1] == 'dir':
                dirs.append((lay.top2(v), v, 'top2'))
            if lay.top[v][0] == 'sticky':
                dirs.append((lay.top1(v), v, 'top1'))
        nodes, ents = [], []
        used = set()
        for k in range(rng.randint(2, 8)):
            td, vol, kind = rng.choice(dirs)
            base = rng.choice(NAMES)
            sub = rng.choice(['', 'd', 'd/e', 'a'])
            if kind == 'home':
                full = os.path.join(rng.choice([lay.home, '/']), sub, base)
                pathv = full
            else:
                pathv = os.path.join(sub, base)
                full = os.path.join(vol, pathv)
            name = 'e%d' % k
            pk = rng.choice(['f', 'f', 'd', 'l'])
            override = None
            if rng.random() < 0.2:
                # a second Path= line (an extra group written by another tool, a hand edit): the FIRST one is the entry's location
                decoy = rng.choice(['other/' + rng.choice(NAMES), '/home/u/' + rng.choice(NAMES), rng.choice(NAMES)])
                override = scen.TI % (scen.quote(pathv), '2024-01-01T00:00:00') + rng.choice(['', '[Desktop Entry]\n']) + 'Path=%s\n' % scen.quote(decoy)
            if override is None and '=' in pathv and rng.random() < 0.6:
                # the '=' of the name written as it is (GLib does not escape it): the value is everything after the FIRST '='
                override = scen.TI % (scen.quote(pathv).replace('%3D', '='), '2024-01-01T00:00:00')
            nodes += scen.entry(td, name, pathv, '2024-01-01T00:00:00', pk, data=(rng.choice(['/canary/file', 'nowhere', '../gone']) if pk == 'l' else None),
                                info_override=override)
            ents.append({'td': td, 'name': name, 'full': full})
        # neighbours without a usable Path: they can never match, they must stay, and they must not stop the run (C19)
        mal = []
        for k in range(rng.choice([0, 0, 0, 1, 2])):
            td, vol, kind = rng.choice(dirs)
            mk = rng.choice(['empty', 'truncated', 'binary', 'nonutf8', 'dir_info', 'no_path'])
            nodes += scen.malformed(rng, td, mk, 'x%d' % k)
            mal.append({'td': td, 'name': 'malx%d' % k, 'kind': mk})
        pat = rng.choice(PATS)
        if rng.random() < 0.2 and ents:
            pat = rng.choice(ents)['full']
        elif rng.random() < 0.15 and ents:
            # an absolute pattern whose wildcard has to span one or more '/': a prefix of an entry's location cut anywhere, then * (or ?*)
            full = rng.choice(ents)['full']
            cut = rng.randint(1, max(1, len(full) - 1))
            pat = full[:cut] + rng.choice(['*', '*', '?*', '[!/]*', '*' + full[-1:]])
        scn = lay.scenario([{'cmd': 'rm', 'argv': [pat], 'listdir': rng.choice(['sorted', 'reverse'])}], extra=nodes + scen.canary())
        scns.append(scn)
        metas.append({'pat': pat, 'ents': ents, 'mal': mal})
        scn['judge_meta'] = metas[-1]                     # so that a replay judges the same entries
    return scns, metas


def judge(run, scn, meta, res, section='state'):
    before, o = res['before'], res['steps'][0]
    after = o['after']
    pat = meta['pat']
    case = {'scenario': scn, 'pattern': esc(pat), 'exit': o['exit'], 'stderr': o['stderr'][-300:]}
    run.count(section)
    nmatch = 0
    for e in meta['ents']:
        subject = e['full'] if pat.startswith('/') else os.path.basename(e['full'])
        want = gmatch(pat, subject)
        if want is None:
            continue
        ib, ia = engine.entries_of(before, e['td']).get(e['name']), engine.entries_of(after, e['td']).get(e['name'])
        if ib is None:
            continue
        gone = ia is None
        intact = ia == ib
        if want:
            nmatch += 1
        if want and not gone:
            run.fail('oracle', 'an entry whose name matches the pattern was not removed whole', dict(case, entry=esc(e['full']), left=str(ia)[:200]),
                     key='match-not-removed', section=section)
        if not want and not intact:
            run.fail('oracle', 'an entry whose name does not match the pattern was removed or altered', dict(case, entry=esc(e['full'])),
                     key='nonmatch-removed', section=section)
    for m in meta.get('mal') or []:
        ib, ia = engine.entries_of(before, m['td']).get(m['name']), engine.entries_of(after, m['td']).get(m['name'])
        if ib != ia:
            run.fail('oracle', 'an entry without a readable Path was removed or altered by trash-rm', dict(case, entry=m), key='pathless-removed',
                     section=section)
    if o['exc'] is not None:
        run.fail('oracle', 'trash-rm ended with an uncaught exception', dict(case, exc=o['exc']), key='rm-traceback', section=section)
    run.nontriv(('rm', esc(pat), nmatch, len(meta['ents']), tuple(sorted(m['kind'] for m in meta.get('mal') or []))))


def decision_jobs(scn, res):
    """the recorded trace of one trash-rm run, cut into one piece per trash directory (reads and removals below it), each with the
    volume the scanner attaches to that directory: '/' for the home trash, the mount point for $top/.Trash/$uid, $top/.Trash-$uid"""
    import re
    import tracelevel
    from common import tok_s
    o = res['steps'][0]
    pat = scn['steps'][0]['argv'][0] if scn['steps'][0]['argv'] else ''
    home = (scn['env'].get('XDG_DATA_HOME') or (scn['env'].get('HOME', '') + '/.local/share')) + '/Trash'
    per = {}
    for rec in o['trace']:
        if rec[0] == 'read':
            if per.get('_last'):
                per[per['_last']].append(rec)
            continue
        if rec[0] not in ('open_read', 'remove', 'rmtree') or not rec[1]:
            continue
        p = rec[1][0] if isinstance(rec[1][0], str) else None
        m = re.match(r'^(.*)/(info|files)/[^/]+$', p or '', re.S)
        if not m:
            continue
        td = m.group(1)
        per.setdefault(td, []).append(rec)
        per['_last'] = td if rec[0] == 'open_read' else None
    per.pop('_last', None)
    jobs = []
    for td, recs in per.items():
        if td == home:
            vol = '/'
        else:
            mm = re.match(r'^(.*)/\.Trash(-\d+|/\d+)$', td)
            if not mm:
                continue
            vol = mm.group(1) or '/'
        jobs.append(('rmdec', tok_s(pat) + '|' + tok_s(vol), {'trace': recs}, {'scenario': scn, 'trash_dir': td, 'volume': vol}))
    return jobs


def run(run, thorough):
    fn_logic.glob(run, thorough)
    scns, metas = gen(run.rng, 500 if not thorough else 8000)
    out = engine.run_all(run, 'rm', scns)
    by_id = {id(s): m for s, m in zip(scns, metas)}
    jobs = []
    for scn, res in out:
        judge(run, scn, by_id[id(scn)], res)
        jobs += decision_jobs(scn, res)
    engine.run_monitors(run, 'rm-decision-monitor', jobs, 'the rm decision monitor (Coq, C12) rejects the implementation trace: inside one trash '
                        'directory a path was removed that is neither the info nor the payload of an entry whose Path, as just read, matches',
                        'removed-without-match', silent=False)
    # the file system refuses the removal of ONE payload (a write-protected sub-directory, an immutable file, a busy mount point): however
    # trash-rm ends then, "payload and info together" - no entry is left as an info-less payload or a payload-less info
    import copy, errno
    refused = []
    for scn, res in out[:200 if not thorough else 2000]:
        o = res['steps'][0]
        rem = [t for t in o['trace'] if t[0] == 'remove' and len(t) > 3 and t[3] and t[1] and '/files/' in str(t[1][0])]
        if not rem:
            continue
        t = run.rng.choice(rem)
        s = copy.deepcopy(scn)
        # (os.remove refused, and the fallback rmtree after it as well)
        s['steps'][0]['plan'] = {'faults': {'remove': {'errno': run.rng.choice([errno.EACCES, errno.EPERM, errno.EBUSY]), 'path': str(t[1][0])},
                                            'rmtree': {'errno': errno.EACCES, 'path': str(t[1][0])}}}
        s['judge_meta'] = dict(by_id[id(scn)], refused=str(t[1][0]))
        refused.append(s)
    for s, res in zip(refused, sandbox.execute_many(refused)):
        if res.get('harness_error') or not res.get('steps'):
            continue
        judge_refused(run, s, res)
    if out:
        run.sample({'level': 'state', 'pattern': esc(metas[0]['pat']), 'entries': [esc(e['full']) for e in metas[0]['ents']]})


def judge_refused(run, scn, res, section='refused-removal'):
    run.count(section)
    before, o = res['before'], res['steps'][0]
    after = o['after']
    meta = scn['judge_meta']
    case = {'scenario': scn, 'pattern': esc(meta['pat']), 'refused': esc(meta['refused']), 'exit': o['exit'], 'stderr': o['stderr'][-300:]}
    for e in meta['ents']:
        ib, ia = engine.entries_of(before, e['td']).get(e['name']), engine.entries_of(after, e['td']).get(e['name'])
        if ib is None or ib['payload'] is None or ib['info'] is None or ia is None:
            continue
        if (ia['payload'] is None) != (ia['info'] is None):
            run.fail('oracle', 'the file system refused the removal of a payload: trash-rm left an entry half removed (%s)' %
                     ('its .trashinfo is gone, the payload is still there' if ia['info'] is None else 'its payload is gone, the .trashinfo is still there'),
                     dict(case, entry=esc(e['full'])), key='half-entry', section=section)
    run.nontriv(('rm-refused', o['exit'], o['exc'] is not None))


def replay(run, payload):
    case = payload.get('case') or {}
    if 'args_tok' in case:
        from common import model_batch
        rep = model_batch([(case['function'], case['args_tok'])])[0]
        print('model:', rep, 'impl recorded:', case.get('impl'))
        if rep != case.get('impl'):
            run.fail('tie', 'function-level disagreement persists', case)
        return
    scn = case.get('scenario')
    if not scn:
        return
    res = sandbox.execute(scn)
    o = res['steps'][0]
    print('trash-rm', [esc(a) for a in scn['steps'][0]['argv']], 'exit', o['exit'], esc(o['stderr'][:300]))
    ents = []
    from urllib.parse import unquote
    for e in scn['tree']:
        if e[0] == 'f' and '/info/' in e[1] and e[1].endswith('.trashinfo') and isinstance(e[2], str):
            td = e[1].split('/info/')[0]
            pv = [l[5:] for l in e[2].split('\n') if l.startswith('Path=')]
            if pv:
                p = unquote(pv[0])
                vol = '/' if 'share/Trash' in td else os.path.dirname(td if '/.Trash-' in td else os.path.dirname(td))
                ents.append({'td': td, 'name': e[1].split('/info/')[1][:-10], 'full': p if p.startswith('/') else os.path.join(vol, p)})
    if scn.get('judge_meta'):
        if scn['judge_meta'].get('refused'):
            judge_refused(run, scn, res, 'replay')
            return
        judge(run, scn, scn['judge_meta'], res)
        return
    judge(run, scn, {'pat': scn['steps'][0]['argv'][0], 'ents': ents}, res)
