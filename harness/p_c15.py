"""C15 - killing restore, empty or rm at any instant never strands a payload without info."""
import copy
import os

import engine
import sandbox
import scen
from common import esc

RULE = ("trace level: every restore/empty/rm run of the scenarios must issue exactly the operations of the Coq model and the Coq order "
        "monitor must accept the recorded trace (info removed only after its payload was removed, moved out or found absent); crash level: "
        "the real command is stopped (_exit immediately before, and KeyboardInterrupt immediately after) EVERY syscall-level mutation (rename, unlink, rmdir, mkdir, open-for-write, "
        "write, symlink, utime, chmod - including those inside shutil.rmtree and a cross-device shutil.move) of each scenario, and the "
        "on-disk state is judged: every payload under files/ that had an info still has it; an entry being restored is complete in the "
        "trash or complete at its destination; re-running the killed trash-empty/trash-rm ends in the same trash as an uninterrupted run; "
        "what a killed trash-restore leaves can be purged. distinct = (command, payload kinds, cross-volume?, crash point class, #entries).")
ASSUMPTIONS = ["each syscall-level mutation is atomic with respect to a kill"]


RULE += ' Since round 8: restores with --overwrite onto existing files/directories/links (no new payload without info), and the interpreter giving up (RecursionError/MemoryError) at one system call or at every unlink/rmdir.'


def gen(rng, n):
    scns, metas = [], []
    for i in range(n):
        lay = scen.Layout(rng, nvols=rng.choice([1, 2]), nested=False, xdg='unset', home_on_own_volume=False)
        cmd = rng.choice(['restore', 'restore', 'empty', 'rm'])
        nodes, ents = [], []
        k = rng.randint(1, 3)
        dirs = [(lay.home_trash, '/', 'home')]
        for v in lay.vols:
            if lay.top[v][1] == 'dir':
                dirs.append((lay.top2(v), v, 'top2'))
            if lay.top[v][0] == 'sticky':
                dirs.append((lay.top1(v), v, 'top1'))
        cross = False
        for j in range(k):
            td, vol, kind = rng.choice(dirs)
            name = rng.choice(['a', 'b', 'n\nl', 'd.trashinfo', 'x y']) + str(j)
            pk = rng.choice(['f', 'd', 'l'])
            if kind == 'home':
                # a destination on another volume makes the restore a cross-device move
                root = rng.choice([lay.home, lay.home, lay.vols[0]])
                cross = cross or root != lay.home
                full = root + '/r/' + name
                pathv = full
            else:
                pathv = 'r/' + name
                full = vol + '/r/' + name
            # (for trash-empty also an entry without DeletionDate: whatever the command makes of it, a killed run that is run again ends
            # where the uninterrupted one ends)
            nodes += scen.entry(td, name, pathv, rng.choice(['2001-01-01T00:00:00', '2024-01-01T00:00:00'] + ([None] if cmd == 'empty' else [])), pk,
                                data=(rng.choice([None, 'no/such', '../gone', '/canary/dir', '/canary/rodir']) if pk == 'l' else None))
            ents.append({'td': td, 'name': name, 'full': full, 'payload': pk})
        nodes += scen.canary()
        step = {'cmd': cmd, 'argv': [], 'listdir': 'sorted'}
        if cmd == 'restore':
            step['argv'] = ['/']
            step['stdin'] = rng.choice(['0\n', '0-%d\n' % (k - 1), '%d\n' % (k - 1), '0,0\n', '0-%d,0\n' % (k - 1)])     # (an index may be typed twice)
            if rng.random() < 0.35 and not any('\n' in e['name'] for e in ents):
                # --overwrite onto something that is already there (a file, a directory, a link).  (Not with a newline in a name: the text
                # of shutil's "Destination path ... already exists" then spans lines, which the line-wise stderr tie cannot follow.)
                step['argv'].append('--overwrite')
                for e in ents:
                    if rng.random() < 0.7 and not any(n[1] == e['full'] for n in nodes):
                        nodes.append(rng.choice([['f', e['full'], 'already here'], ['d', e['full'] + '/sub', 0o755], ['l', e['full'], '/canary/file']]))
        elif cmd == 'empty':
            if rng.random() < 0.5:
                step['argv'] = ['365']
                step['env'] = {'TRASH_DATE': rng.choice(['2024-06-01T00:00:00', '2100-01-01T00:00:00'])}
        else:
            step['argv'] = [rng.choice(['*', '*0', '[ab]*'])]
        scns.append(lay.scenario([step], cwd='/', extra=nodes))
        metas.append({'cmd': cmd, 'ents': ents, 'cross': cross})
    return scns, metas


def payload_subtree(snap, td, name):
    return sandbox.subtree(snap, td + '/files/' + name)


def judge_crash(run, scn, meta, before, k, nmut, crashed, final_ref, section):
    """crashed: result of [cmd killed at k, then recovery step]; final_ref: trash view after the uninterrupted run"""
    case = {'scenario': scn, 'crash_point': k, 'of': nmut, 'meta': {'cmd': meta['cmd'], 'cross': meta['cross']}}
    st = crashed['steps'][0]
    snap = st['after']
    run.count(section)
    tds = engine.trash_dirs_in(before)
    # (1) every payload still present that had an info before still has it
    for td in tds:
        eb = engine.entries_of(before, td)
        ea = engine.entries_of(snap, td)
        for name, e in ea.items():
            if e['payload'] is not None and eb.get(name, {}).get('info') is not None and e['info'] is None:
                run.fail('oracle', 'a killed %s left a payload without its .trashinfo' % meta['cmd'],
                         dict(case, trash_dir=td, name=esc(name)), key='stranded-payload', section=section)
                return
            if e['payload'] is not None and e['info'] is None and name not in eb:
                run.fail('oracle', 'a killed %s left a NEW payload under files/ that has no .trashinfo' % meta['cmd'],
                         dict(case, trash_dir=td, name=esc(name)), key='stranded-payload', section=section)
                return
    # (2) restore: each entry complete in the trash or complete at the destination
    if meta['cmd'] == 'restore':
        for e in meta['ents']:
            orig = payload_subtree(before, e['td'], e['name'])
            in_trash = payload_subtree(snap, e['td'], e['name']) == orig and engine.entries_of(snap, e['td']).get(e['name'], {}).get('info') is not None
            at_dest = sandbox.subtree(snap, e['full']) == orig
            if not in_trash and not at_dest and sandbox.subtree(before, e['full']) == {}:
                # directories get a new mtime when a child is moved/removed: compare without the top directory's mtime
                def loose(t):
                    return {p: (v if p != '' else v[:3]) for p, v in t.items()}
                if loose(payload_subtree(snap, e['td'], e['name'])) == loose(orig) or loose(sandbox.subtree(snap, e['full'])) == loose(orig):
                    continue
                run.fail('oracle', 'a killed trash-restore left an entry complete neither in the trash nor at its destination',
                         dict(case, entry=esc(e['full'])), key='restore-split', section=section)
                return
    # (3) recovery
    rec = crashed['steps'][1]
    fin = rec['after']
    if meta['cmd'] in ('empty', 'rm'):
        view = {td: sorted(engine.entries_of(fin, td)) for td in tds}
        if view != final_ref:
            run.fail('oracle', 're-running the killed %s does not complete the purge' % meta['cmd'],
                     dict(case, after_rerun={k2: [esc(x) for x in v] for k2, v in view.items()},
                          uninterrupted={k2: [esc(x) for x in v] for k2, v in final_ref.items()}, rerun_stderr=rec['stderr'][-300:]),
                     key='rerun-incomplete', section=section)
    else:
        left = {td: sorted(engine.entries_of(fin, td)) for td in tds if engine.entries_of(fin, td)}
        # the purge after a killed restore scans home + volumes: dirs of the layout only
        if left:
            run.fail('oracle', 'what a killed trash-restore left in the trash cannot be purged by trash-empty',
                     dict(case, left={k2: [esc(x) for x in v] for k2, v in left.items()}, stderr=rec['stderr'][-300:]), key='unpurgeable', section=section)
    run.nontriv((meta['cmd'], meta['cross'], tuple(sorted(set(e['payload'] for e in meta['ents']))), min(k, 12), len(meta['ents'])))


def sweep(run, scn, meta, section='crash', max_points=None):
    base = sandbox.execute(scn)
    if base.get('harness_error') or not base.get('steps'):
        run.fail('harness', 'sandbox failure', {'error': base.get('harness_error'), 'scenario': scn})
        return None
    o = base['steps'][0]
    nmut = o.get('nmut', 0)
    tds = engine.trash_dirs_in(base['before'])
    final_ref = {td: sorted(engine.entries_of(o['after'], td)) for td in tds}
    ks = list(range(1, nmut + 1))
    if max_points and len(ks) > max_points:
        ks = sorted(run.rng.sample(ks, max_points))
    scns = []
    plans = [(k, {'crash': k}) for k in ks] + [(k, {'interrupt': k}) for k in ks]   # SIGKILL-like and SIGINT-like
    # ... and the interpreter giving up at that point (RecursionError of the recursive rmtree on a very deep tree, MemoryError): an
    # Exception that is no OSError ends the command there just as well
    plans += [(k, {'raise_at': [k, run.rng.choice(['RecursionError', 'MemoryError'])]}) for k in ks]
    if any(m in ('unlink', 'rmdir') for m in o.get('muts', [])):
        plans.append((0, {'raise_kinds': [['unlink', 'rmdir'], 'RecursionError']}))      # ... at every attempt to remove a directory's contents
    ks = [k for k, _ in plans]
    for k, plan in plans:
        s = copy.deepcopy(scn)
        first = s['steps'][0]
        first['plan'] = plan
        if meta['cmd'] in ('empty', 'rm'):
            again = copy.deepcopy(scn['steps'][0])
        else:
            again = {'cmd': 'empty', 'argv': ['-f'], 'listdir': 'sorted'}
        s['steps'] = [first, again]
        scns.append(s)
    res = sandbox.execute_many(scns) if scns else []
    for k, s, r in zip(ks, scns, res):
        if r.get('harness_error') or len(r.get('steps', [])) < 2:
            run.fail('harness', 'sandbox failure in crash run', {'error': r.get('harness_error'), 'scenario': s})
            continue
        judge_crash(run, scn, meta, base['before'], k, nmut, r, final_ref, section)
    return base


def run(run, thorough):
    scns, metas = gen(run.rng, 150 if not thorough else 1500)
    out = engine.run_all(run, 'uninterrupted', scns)
    jobs = []
    for scn, res in out:
        st, o = scn['steps'][0], res['steps'][0]
        jobs.append(('order', 'b0' if st['cmd'] == 'empty' else 'b1', o, {'scenario': scn}))
    engine.run_monitors(run, 'order-monitor', jobs, 'the order monitor (Coq, C15) rejects the implementation trace: an info file is removed '
                        'before its payload was dealt with', 'info-before-payload')
    total = 0
    for scn, meta in zip(scns, metas):
        sweep(run, scn, meta, max_points=None if thorough else 40)
    # trash-rm with ONE system call of a removal refused (EACCES / EBUSY on the k-th unlink or rmdir, every k): the info file goes only after
    # the whole payload has gone - a payload that could be removed only in part keeps its .trashinfo (trash-rm's order is strict)
    rf, rfm = [], []
    for scn, meta in zip(scns, metas):
        if meta['cmd'] != 'rm' or not any(e['payload'] == 'd' for e in meta['ents']) or len(rf) > (60 if not thorough else 600):
            continue
        for k in range(1, 13):
            s2 = copy.deepcopy(scn)
            s2['steps'][0]['plan'] = {'sysfault': [k, run.rng.choice([13, 16])]}
            rf.append(s2)
            rfm.append((meta, k))
    for s2, (meta, k), r in zip(rf, rfm, sandbox.execute_many(rf) if rf else []):
        if r.get('harness_error') or not r.get('steps'):
            continue
        run.count('rm-refused-removal')
        snap, before = r['steps'][0]['after'], r['before']
        for td in engine.trash_dirs_in(before):
            eb = engine.entries_of(before, td)
            for name, e in engine.entries_of(snap, td).items():
                if e['payload'] is not None and eb.get(name, {}).get('info') is not None and e['info'] is None:
                    run.fail('oracle', 'the file system refused one removal inside a trashed directory: trash-rm removed the .trashinfo although part '
                             'of the payload is still under files/', {'scenario': s2, 'rm_refused': True, 'trash_dir': td, 'name': esc(name), 'refused_call': k,
                                                                     'exit': r['steps'][0]['exit']}, key='stranded-payload:refused', section='rm-refused-removal')
        run.nontriv(('rm-refused', k, r['steps'][0]['exit']))
    # directed: the real clock moves while trash-empty DAYS runs, and an entry's date is exactly now - DAYS at the first reading: one
    # decision per entry - it is kept whole (or purged whole), at every crash point
    import random as _random_mod
    lay = scen.Layout(_random_mod.Random(3), nvols=1, nested=False, xdg='unset', home_on_own_volume=False, uid=0)
    nodes = scen.canary()
    ents = []
    for nm, date, pk in (('edge', '2024-05-31T00:00:00', 'd'), ('old', '2001-01-01T00:00:00', 'f'), ('young', '2024-05-31T12:00:00', 'f')):
        nodes += scen.entry(lay.home_trash, nm, '/r/' + nm, date, pk)
        ents.append({'td': lay.home_trash, 'name': nm, 'full': '/r/' + nm, 'payload': pk})
    # directed: while trash-rm is removing a trashed directory, another purge (killed a moment later) takes files out of it: the removal
    # fails in the middle with "no such file" - the entry keeps its .trashinfo as long as anything of the payload is left
    nodes2 = scen.canary() + scen.entry(lay.home_trash, 'tree', '/r/tree', '2001-01-01T00:00:00', 'd')
    pay = lay.home_trash + '/files/tree'
    scn2 = lay.scenario([{'cmd': 'rm', 'argv': ['tree'], 'listdir': 'sorted'}], cwd='/', extra=nodes2)
    base2 = sandbox.execute(scn2)
    if base2.get('steps'):
        nm2 = base2['steps'][0].get('nmut', 0)
        vic = [pay + '/sub/deep', pay + '/sub/dangling', pay + '/sub/rel_up', pay + '/sub/to_canary_dir', pay + '/inner', pay + '/to_canary_file']
        raced = []
        for k in range(1, nm2 + 1):
            s3 = copy.deepcopy(scn2)
            s3['steps'][0]['plan'] = {'midfs': {'after': k, 'ops': [['remove', v] for v in vic]}}
            raced.append(s3)
        for s3, r in zip(raced, sandbox.execute_many(raced) if raced else []):
            if not r.get('steps'):
                continue
            run.count('raced-purge')
            snap = r['steps'][0]['after']
            e = engine.entries_of(snap, lay.home_trash).get('tree')
            if e is not None and e['payload'] is not None and e['info'] is None:
                run.fail('oracle', 'trash-rm removed the .trashinfo although part of the payload is still under files/ (its removal had failed: '
                         'another purge was taking files out of the same directory)', {'scenario': s3, 'exit': r['steps'][0]['exit'],
                         'stderr': r['steps'][0]['stderr'][-300:]}, key='payload-without-info', section='raced-purge')
    for tick in (1, 3600):
        scn = lay.scenario([{'cmd': 'empty', 'argv': ['1'], 'listdir': 'sorted', 'now': [2024, 6, 1, 0, 0, 0, 0], 'tick': tick}], cwd='/', extra=nodes)
        sweep(run, scn, {'cmd': 'empty', 'ents': ents, 'cross': False}, section='moving-clock')
    if scns:
        run.sample({'level': 'crash', 'step': [scns[0]['steps'][0]['cmd'], scns[0]['steps'][0]['argv'], esc(scns[0]['steps'][0].get('stdin') or '')],
                    'entries': [[esc(e['full']), e['payload']] for e in metas[0]['ents']]})


def replay(run, payload):
    case = payload.get('case') or {}
    if case.get('rm_refused'):
        r = sandbox.execute(case['scenario'])
        if r.get('steps'):
            snap, before = r['steps'][0]['after'], r['before']
            for td in engine.trash_dirs_in(before):
                eb = engine.entries_of(before, td)
                for name, e in engine.entries_of(snap, td).items():
                    if e['payload'] is not None and eb.get(name, {}).get('info') is not None and e['info'] is None:
                        run.fail('oracle', 'trash-rm removed the .trashinfo although part of the payload is still under files/', case, key='stranded-payload:refused', section='replay')
        return
    scn = case.get('scenario')
    if not scn:
        return
    meta = case.get('meta') or {}
    cmd = scn['steps'][0]['cmd']
    pl = scn['steps'][0].get('plan') or {}
    if pl.get('midfs') or pl.get('midlib'):
        # somebody else interferes at one given point: that run itself is the case, there are no crash points to sweep
        r = sandbox.execute(scn)
        if r.get('steps'):
            o = r['steps'][0]
            print(cmd, scn['steps'][0]['argv'], 'exit', o['exit'], 'mutations', o.get('muts'))
            snap = o['after']
            for td in engine.trash_dirs_in(snap):
                for name, e in engine.entries_of(snap, td).items():
                    if e['payload'] is not None and e['info'] is None and engine.entries_of(r['before'], td).get(name, {}).get('info') is not None:
                        run.fail('oracle', 'the .trashinfo was removed although part of the payload is still under files/', {'scenario': scn, 'name': esc(name)},
                                 key='payload-without-info', section='replay')
        return
    if 'ents' not in meta:
        # reconstruct the entries from the tree
        ents = []
        for e in scn['tree']:
            if e[0] == 'f' and '/info/' in e[1] and e[1].endswith('.trashinfo'):
                td = e[1].split('/info/')[0]
                name = e[1].split('/info/')[1][:-10]
                txt = e[2] if isinstance(e[2], str) else ''
                pth = [l[5:] for l in txt.split('\n') if l.startswith('Path=')]
                from urllib.parse import unquote
                pv = unquote(pth[0]) if pth else ''
                full = pv if pv.startswith('/') else os.path.join(os.path.dirname(os.path.dirname(td)) if '/.Trash/' in td else os.path.dirname(td), pv)
                ents.append({'td': td, 'name': name, 'full': full, 'payload': '?'})
        meta = {'cmd': cmd, 'ents': ents, 'cross': meta.get('cross', False)}
    base = sweep(run, scn, meta)
    if base:
        o = base['steps'][0]
        print(cmd, scn['steps'][0]['argv'], 'exit', o['exit'], 'mutations', o.get('muts'))
        engine.run_monitors(run, 'order-monitor', [('order', 'b0' if cmd == 'empty' else 'b1', o, {'scenario': scn})], 'order monitor rejects', 'info-before-payload')
