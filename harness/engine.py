"""Shared machinery of the per-property checks: executing scenarios, the trace-level tie, running the Coq
monitors over recorded traces, crash / fault sweeps, snapshot helpers and common oracles."""
import copy
import os

import sandbox
import tracelevel
from common import model_batch, esc, jdump


# ------------------------------------------------------------------------------------------------ running
def run_all(run, section, scns, tie=True, strict=True):
    """execute scenarios on the implementation; tie = trace-level correspondence with the model on every step.
    returns [(scn, result)] (result = sandbox.execute output)"""
    results = sandbox.execute_many(scns)
    items = []
    out = []
    for scn, res in zip(scns, results):
        if res.get('harness_error') or not res.get('steps'):
            run.fail('harness', 'sandbox failure', {'error': (res.get('harness_error') or '')[-800:], 'scenario': scn})
            continue
        out.append((scn, res))
        for st, o in zip(scn['steps'], res['steps']):
            if st.get('cmd') == 'fs':
                continue
            if o.get('harness_error'):
                run.fail('harness', 'sandbox step failure', {'error': o.get('harness_error'), 'scenario': scn})
            items.append((scn, st, o))
    if tie:
        tracelevel.check_runs(run, section + ':trace-tie', items, strict=strict)
        # world conformance: the file-system model applied to the same operations must give the snapshot taken after the step
        import worldtie
        witems = []
        for scn, res in out:
            prev = res.get('before')
            for st, o in zip(scn['steps'], res['steps']):
                if st.get('cmd') != 'fs' and o.get('after') is not None and prev is not None:
                    witems.append((scn, st, o, prev))
                prev = o.get('after', prev)
        worldtie.check(run, section + ':world-tie', witems)
    return out


# ------------------------------------------------------------------------------------------------ monitors
def monitor_requests(name, param, conv_trace):
    toks = []
    for op, ans in conv_trace:
        toks.append(op)
        toks.append(ans)
    return ('monitor', [name, param] + toks)


def with_silent_ops(jobs):
    """the implementation trace has no output operations (they go to stdout/stderr); where the model reproduces the run exactly, take
    the positions of its Out/Log operations so that monitors that look at output (put: reports; restore: listing lines) see them"""
    reqs, idx = [], []
    convs = []
    for j, job in enumerate(jobs):
        name, param, obs, case = job[:4]
        conv = tracelevel.convert(obs['trace'])
        convs.append(conv)
        scn = case.get('scenario')
        step = case.get('step')
        if scn is None or any(a is None for _, a in conv):
            continue
        if step is None:
            step = scn['steps'][case.get('step_index', 0)]
        b = dict(tracelevel.BUILDERS, put=tracelevel.put_request).get(step['cmd'])
        rq = b(scn, step, conv) if b else None
        if rq is None:
            continue
        reqs.append(rq[0])
        idx.append(j)
    reps = model_batch(reqs) if reqs else []
    out = [[(o, a) for o, a in c if a is not None and not o.startswith('?') and not o.startswith('!')] for c in convs]
    for j, rep in zip(idx, reps):
        if rep.startswith('!ERR'):
            continue
        ops = rep.split('\t')[0].split(';') if rep.split('\t')[0] else []
        real = [o for o in ops if not (o.startswith('out:') or o.startswith('log:'))]
        conv = convs[j]
        if real[:len(conv)] != [o for o, _ in conv][:len(real)] or len(real) < len(conv):
            continue                                   # the tie is broken for this run: monitor the bare implementation trace
        merged, k = [], 0
        for o in ops:
            if o.startswith('out:') or o.startswith('log:'):
                merged.append((o, 'u'))
            else:
                if k >= len(conv):
                    break
                merged.append((o, conv[k][1]))
                k += 1
        out[j] = merged
    return out


def run_monitors(run, section, jobs, what, key, silent=None):
    """jobs: [(name, param, obs, case)] ; the Coq monitor `name` (extracted) must accept the implementation's trace"""
    reqs, metas = [], []
    if silent is None:
        silent = any(j[0] in ('put', 'select') for j in jobs)     # these monitors look at output operations
    merged = with_silent_ops(jobs) if silent else None
    for j, (name, param, obs, case) in enumerate(jobs):
        if merged is not None:
            conv = merged[j]
        else:
            conv = tracelevel.convert(obs['trace'])
            conv = [(o, a) for o, a in conv if a is not None and not o.startswith('?') and not o.startswith('!')]
        reqs.append(monitor_requests(name, param, conv))
        metas.append((obs, case, conv))
    reps = model_batch(reqs)
    bad = 0
    for (obs, case, conv), rep in zip(metas, reps):
        run.count(section)
        if rep != 'ok':
            bad += 1
            idx = None
            try:
                idx = int(rep.split(':')[1])
            except Exception:
                pass
            at = conv[idx][0] if idx is not None and idx < len(conv) else rep
            if bad <= 3:
                run.fail('oracle', what, dict(case, monitor_verdict=rep, rejected_operation=_show_op(at),
                                              trace=[_show_op(o) + ' -> ' + str(a) for o, a in conv][:120]),
                         key=key, section=section)
    return bad


def _show_op(o):
    parts = o.split(':')
    out = [parts[0]]
    for p in parts[1:]:
        if p.startswith('s'):
            try:
                out.append(esc(tracelevel._untok(p)))
            except Exception:
                out.append(p)
        else:
            out.append(p)
    return ' '.join(out)


# ------------------------------------------------------------------------------------------------ snapshots
def strip_mtime(snap, dirs_only=False):
    out = {}
    for p, v in snap.items():
        if dirs_only and v[0] != 'd':
            out[p] = v
        else:
            out[p] = (v[0], v[1], v[2], 0)
    return out


def changed_paths(a, b, ignore_dir_mtime=True):
    """paths whose node differs between two snapshots"""
    out = []
    for p in sorted(set(a) | set(b)):
        x, y = a.get(p), b.get(p)
        if x is None or y is None:
            out.append(p)
            continue
        if ignore_dir_mtime and x[0] == 'd' and y[0] == 'd':
            if x[:3] != y[:3]:
                out.append(p)
        elif x != y:
            out.append(p)
    return out


def under(p, d):
    return p == d or p.startswith(d.rstrip('/') + '/')


def trash_dirs_in(snap):
    """every directory that looks like a trash directory (has an info/ or files/ child directory)"""
    out = set()
    for p, v in snap.items():
        if v[0] == 'd' and (p.endswith('/info') or p.endswith('/files')):
            out.add(os.path.dirname(p))
    return sorted(out)


def entries_of(snap, td):
    """name -> {'info': bytes|None|'dir', 'payload': subtree dict or None}"""
    out = {}
    ip, fp = td + '/info/', td + '/files/'
    for p, v in snap.items():
        if p.startswith(ip) and '/' not in p[len(ip):]:
            n = p[len(ip):]
            if n.endswith('.trashinfo'):
                out.setdefault(n[:-10], {'info': None, 'payload': None})['info'] = v[2] if v[0] == 'f' else v[0]
        elif p.startswith(fp) and '/' not in p[len(fp):]:
            n = p[len(fp):]
            out.setdefault(n, {'info': None, 'payload': None})['payload'] = sandbox.subtree(snap, p)
    return out


def subtree_eq(a, b):
    return a == b


# ------------------------------------------------------------------------------------------------ crash / fault sweeps
def crash_sweep(scn, step_index, max_points=None, rng=None):
    """run scn once to learn the number of syscall-level mutations of step `step_index`, then once per crash point k
    (the process is stopped immediately before the k-th mutation). yields (k, nmut, result)"""
    base = sandbox.execute(scn)
    if not base.get('steps') or len(base['steps']) <= step_index:
        return base, []
    nmut = base['steps'][step_index].get('nmut', 0)
    ks = list(range(1, nmut + 1))
    if max_points and len(ks) > max_points and rng is not None:
        ks = sorted(rng.sample(ks, max_points))
    scns = []
    for k in ks:
        s = copy.deepcopy(scn)
        s['steps'] = s['steps'][:step_index + 1]
        s['steps'][step_index].setdefault('plan', {})
        s['steps'][step_index]['plan'] = dict(s['steps'][step_index]['plan'], crash=k)
        scns.append(s)
    res = sandbox.execute_many(scns) if scns else []
    return base, list(zip(ks, scns, res))


def info_parseable(data):
    """a complete, parseable .trashinfo: header, a Path line and a valid DeletionDate line"""
    if not isinstance(data, (bytes, bytearray)):
        return False
    try:
        txt = bytes(data).decode('utf-8')
    except UnicodeDecodeError:
        return False
    lines = txt.split('\n')
    import datetime
    hasp = any(l.startswith('Path=') for l in lines)
    d = [l for l in lines if l.startswith('DeletionDate=')]
    if not hasp or not d or not txt.endswith('\n'):
        return False
    try:
        datetime.datetime.strptime(d[0], 'DeletionDate=%Y-%m-%dT%H:%M:%S')
    except ValueError:
        return False
    return True


def physical(snap, path, depth=0):
    """resolve symlinked directory components of `path` (not the last one) against a snapshot"""
    if depth > 20 or not path.startswith('/'):
        return path
    comps = [c for c in path.split('/') if c]
    cur = ''
    for i, c in enumerate(comps):
        nxt = cur + '/' + c
        v = snap.get(nxt)
        if v is not None and v[0] == 'l' and i < len(comps) - 1:
            tgt = v[2]
            base = tgt if tgt.startswith('/') else (cur + '/' + tgt)
            rest = '/'.join(comps[i + 1:])
            return physical(snap, os.path.normpath(base) + '/' + rest, depth + 1)
        cur = nxt
    return cur or '/'


def kresolve(snap, path, depth=0):
    """the path the KERNEL resolves `path` to against a snapshot: components are walked left to right, '.' and '' dropped, '..' goes to
    the parent of where we physically are, a symbolic link in a non-final position is followed (the final component is not)"""
    if not path.startswith('/') or depth > 30:
        return path
    comps = path.split('/')
    cur = ''
    for i, c in enumerate(comps):
        if c in ('', '.'):
            continue
        if c == '..':
            cur = cur.rsplit('/', 1)[0]
            continue
        nxt = cur + '/' + c
        v = snap.get(nxt)
        last = all(x in ('', '.') for x in comps[i + 1:])
        if v is not None and v[0] == 'l' and not last:
            tgt = v[2]
            base = tgt if tgt.startswith('/') else cur + '/' + tgt
            return kresolve(snap, base + '/' + '/'.join(comps[i + 1:]), depth + 1)
        cur = nxt
    return cur or '/'
