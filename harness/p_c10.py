"""C10 - trash-empty DAYS purges exactly the entries trashed more than DAYS days ago."""
import datetime
import os

import engine
import fn_codec
import fn_logic
import sandbox
import scen
from common import esc, tok_s, tok_z

RULE = ("function level: older_than / datetime comparison of /repo + CPython vs the Coq functions on a boundary grid (DAYS x now x "
        "now-DAYS +- {1us, 1s, 1h, 1d}) and random dates; strptime on every lexical boundary of the format; trace level: exact correspondence "
        "of every trash-empty run with the Coq model and the Coq decision monitor (a removal only of an approved path: info/payload of an "
        "entry whose first DeletionDate is strictly older than now-DAYS, or an orphan) accepting the recorded trace; state level: an "
        "independent computation with Python's datetime decides, per entry, removed-whole vs kept-byte-identical: dates exactly DAYS days "
        "ago, one second either side, far past, future, malformed dates, duplicated DeletionDate lines, missing dates, across home and volume "
        "trash dirs, TRASH_DATE set; without DAYS every entry and every payload lacking info is removed. "
        "distinct = (DAYS, relation of the date to the threshold, malformed kind, dir kind).")
ASSUMPTIONS = ["'now' is TRASH_DATE (the harness sets it) or the patched clock; local time without DST games (TZ=UTC)"]

NOW = datetime.datetime(2024, 3, 1, 12, 0, 0)
FMT = '%Y-%m-%dT%H:%M:%S'


RULE += ' Since round 8: refused-removal (one removal fails with EROFS/EBUSY/EIO/EACCES/EPERM/ENOTEMPTY: that entry excused, all others judged by the rule, no traceback).'


def gen(rng, n):
    scns, metas = [], []
    for i in range(n):
        lay = scen.Layout(rng, nested=False, home_on_own_volume=False, xdg=rng.choice(['unset', 'unset', 'empty', 'set']))
        dirs = [(lay.home_trash, 'home')]
        for v in lay.vols:
            if lay.top[v][1] == 'dir':
                dirs.append((lay.top2(v), 'top2'))
            if lay.top[v][0] == 'sticky':
                dirs.append((lay.top1(v), 'top1'))
        days = rng.choice([None, 0, 1, 2, 7, 30, 365, 366, 10000])
        nodes, ents = [], []
        fam = scen.suffix_family(rng)
        famdir = rng.choice(dirs)
        for k in range(max(rng.randint(1, 7), len(fam))):
            td, kind = rng.choice(dirs)
            name = 'e%d' % k
            if k < len(fam):
                (td, kind), name = famdir, fam[k]
            r = rng.random()
            d = days if days is not None else 3
            lim = NOW - datetime.timedelta(days=d)
            if r < 0.55:
                delta = rng.choice([datetime.timedelta(0), datetime.timedelta(seconds=1), -datetime.timedelta(seconds=1), datetime.timedelta(days=1),
                                    -datetime.timedelta(days=1), datetime.timedelta(hours=1), -datetime.timedelta(days=4000), datetime.timedelta(days=4000)])
                dt = lim + delta
                info = scen.TI % ('/home/u/' + name, dt.strftime(FMT))
                dates = [dt.strftime(FMT)]
                if rng.random() < 0.2:
                    # what other implementations write around the two keys: a header spelt differently, none at all, another group before
                    # the date - the entry's date is its first DeletionDate line, wherever it stands
                    hdr = rng.choice(['[Trash info]\n', '[trash info]\n', '[ Trash Info ]\n', '', '[Trash Info]\n[X-File-Manager]\nIcon=x\n'])
                    info = hdr + ('Path=/home/u/%s\n' % name) + rng.choice(['', '[X-Extension]\nfoo=bar\n']) + 'DeletionDate=%s\n' % dt.strftime(FMT)
            elif r < 0.62:
                # characters that str.splitlines() takes for line ends but a text file does not: form feed, vertical tab, FS/GS/RS,
                # NEL, LINE/PARAGRAPH SEPARATOR.  The info file has ONE DeletionDate line, and it is what stands between '=' and '\n'
                sep = rng.choice(['\x0c', '\x0b', '\x1c', '\x1d', '\x1e', '\x85', '\u2028', '\u2029'])
                old = (lim - datetime.timedelta(days=3)).strftime(FMT)
                recent = (lim + datetime.timedelta(days=3)).strftime(FMT)
                if rng.random() < 0.5:
                    info = scen.TI % ('/home/u/' + name, old + sep)                 # not a date: the entry is undated
                    dates = [old + sep]
                else:
                    info = '[Trash Info]\nPath=/home/u/%s%sDeletionDate=%s\nDeletionDate=%s\n' % (name, sep, old, recent)
                    dates = [recent]                                             # the only DeletionDate LINE is the recent one
            elif r < 0.7:
                bad = rng.choice(scen.BAD_DATES)
                info = scen.TI % ('/home/u/' + name, bad)
                dates = [bad]
            elif r < 0.8:
                info = '[Trash Info]\nPath=/home/u/%s\n' % name
                dates = []
            else:
                first = rng.choice([(lim - datetime.timedelta(days=2)).strftime(FMT), (lim + datetime.timedelta(days=2)).strftime(FMT), 'bogus',
                                    (lim - datetime.timedelta(seconds=1)).strftime(FMT) + 'Z', '2024-02-30T00:00:00'])
                second = rng.choice([(lim - datetime.timedelta(days=5)).strftime(FMT), (lim + datetime.timedelta(days=5)).strftime(FMT)])
                info = '[Trash Info]\nDeletionDate=%s\nPath=/home/u/%s\nDeletionDate=%s\n' % (first, name, second)
                dates = [first, second]
            pk = rng.choice(['f', 'd', 'l'])
            nodes += scen.entry(td, name, '/home/u/' + name, None, pk, info_override=info,
                                data=(rng.choice([None, 'no/such', '../gone', '/canary/dir']) if pk == 'l' else None))
            ents.append({'td': td, 'name': name, 'dates': dates})
        if rng.random() < 0.3:
            # entries whose .trashinfo cannot be read at all (not text, a directory, a link to nowhere): undated - kept when DAYS is
            # given, purged like everything else when it is not
            td, kind = rng.choice(dirs)
            # (a .trashinfo that is a dangling symbolic link only without DAYS: with DAYS its payload counts as a payload lacking a
            # .trashinfo - os.path.exists follows the link - and such payloads are purged whatever DAYS says; no trash implementation
            # writes such a link and the property does not list it, so it is not held against the code)
            uk = rng.choice(['nonutf8', 'dir_info', 'binary'] + (['dangling'] if days is None else []))
            tag = 'u%d' % i
            if uk == 'dangling':
                nodes += [['l', td + '/info/mal%s.trashinfo' % tag, 'no/such/info'], ['f', td + '/files/mal%s' % tag, 'p']]
            else:
                nodes += scen.malformed(rng, td, uk, tag)
            ents.append({'td': td, 'name': 'mal' + tag, 'dates': [], 'unreadable': uk})
        orphans = []
        if rng.random() < 0.4:
            td, kind = rng.choice(dirs)
            nodes += [['f', td + '/files/orphan', 'no info'], ['d', td + '/info', 0o700]]
            orphans.append((td, 'orphan'))
        argv = [str(days)] if days is not None else []
        step = {'cmd': 'empty', 'argv': argv + ['-f'], 'env': {'TRASH_DATE': NOW.strftime(FMT)}, 'listdir': rng.choice(['sorted', 'reverse'])}
        if rng.random() < 0.2:
            step['env'] = {}
            # the real clock has a sub-second part: an entry dated exactly now - DAYS at the full second IS older than the limit then
            micro = rng.choice([0, 0, 750000, 1])
            step['now'] = [NOW.year, NOW.month, NOW.day, NOW.hour, NOW.minute, NOW.second, micro]
        if rng.random() < 0.3:
            # a time zone with daylight saving whose switch (third Sunday of February) lies between most limits and now: deletion dates
            # are naive local times and the rule is calendar arithmetic on them - an hour that the clocks skipped changes nothing
            step['env'] = dict(step['env'], TZ=rng.choice(['XST5XDT,M2.3.0,M11.1.0', 'XST-1XDT,M2.3.0/2,M10.5.0/3', 'UTC0']))
        scns.append(lay.scenario([step], extra=nodes + scen.canary()))
        metas.append({'days': days, 'ents': ents, 'orphans': orphans, 'micro': (step.get('now') or [0] * 7)[6]})
        scns[-1]['judge_meta'] = {'days': days, 'ents': ents, 'orphans': [list(x) for x in orphans], 'micro': metas[-1]['micro']}     # so that a replay judges the same entries
    return scns, metas


def first_date(dates):
    """the entry's date: the FIRST DeletionDate line, valid or not (None = undated/invalid)"""
    if not dates:
        return None
    try:
        return datetime.datetime.strptime(dates[0], FMT)
    except ValueError:
        return None


def judge(run, scn, meta, res, section='state'):
    before, o = res['before'], res['steps'][0]
    after = o['after']
    days = meta['days']
    case = {'scenario': scn, 'days': days, 'exit': o['exit'], 'stderr': o['stderr'][-300:]}
    run.count(section)
    for e in meta['ents']:
        ib, ia = engine.entries_of(before, e['td']).get(e['name']), engine.entries_of(after, e['td']).get(e['name'])
        if ib is None:
            continue
        if meta.get('excused') and list(meta['excused']) == [e['td'], e['name']]:
            continue                      # the file system refused a removal of this very entry (reported; C15 judges what is left of it)
        d = first_date(e['dates'])
        if days is None:
            must_go = True
        else:
            must_go = d is not None and d < NOW + datetime.timedelta(microseconds=meta.get('micro') or 0) - datetime.timedelta(days=days)
        rel = 'none' if d is None else ('old' if must_go else 'new')
        if must_go and ia is not None:
            run.fail('oracle', 'an entry older than DAYS days (or any entry without DAYS) was not removed whole', dict(case, entry=e, left=str(ia)[:200]),
                     key='old-not-purged', section=section)
        if not must_go and ia != ib:
            run.fail('oracle', 'an entry that must be kept (not older than DAYS days, or undated) was removed or altered', dict(case, entry=e),
                     key='kept-entry-purged', section=section)
        run.nontriv((days, rel, len(e['dates']), e['dates'][0][-3:] if e['dates'] else ''))
    for td, name in meta['orphans']:
        if meta.get('excused') and list(meta['excused']) == [td, name]:
            continue
        if engine.entries_of(after, td).get(name) is not None and days is None:
            run.fail('oracle', 'trash-empty without DAYS left a payload lacking a .trashinfo', dict(case, orphan=td + '/files/' + name),
                     key='orphan-not-purged', section=section)


def run(run, thorough):
    fn_logic.older(run, thorough)
    ds = fn_codec.dates(run, thorough)
    scns, metas = gen(run.rng, 500 if not thorough else 8000)
    out = engine.run_all(run, 'empty', scns)
    by_id = {id(s): m for s, m in zip(scns, metas)}
    jobs = []
    for scn, res in out:
        m = by_id[id(scn)]
        judge(run, scn, m, res)
        st = scn['steps'][0]
        envd = (st.get('env') or {}).get('TRASH_DATE')
        param = ('N' if m['days'] is None else tok_z(m['days'])) + '|' + ('N' if not envd else tok_s(envd))
        jobs.append(('decision', param, res['steps'][0], {'scenario': scn}))
    engine.run_monitors(run, 'decision-monitor', jobs, 'the decision monitor (Coq, C10) rejects the implementation trace: a path was removed that is '
                        'neither an old entry nor an orphan', 'unapproved-removal')
    # the file system refuses ONE removal (read-only volume, busy, I/O error, permission ...): that entry is reported and excused, every
    # other entry is still judged by the rule - in the same trash directory and in the ones visited afterwards
    import copy, errno
    refused, rmetas = [], []
    for scn, res in out[:150 if not thorough else 1500]:
        o = res['steps'][0]
        rem = [t for t in o['trace'] if t[0] == 'remove' and len(t) > 3 and t[3] and t[1] and ('/files/' in str(t[1][0]) or '/info/' in str(t[1][0]))]
        if len(rem) < 2:
            continue
        t = run.rng.choice(rem[:-1] if run.rng.random() < 0.7 else rem)
        p = str(t[1][0])
        td = p.split('/files/')[0] if '/files/' in p else p.split('/info/')[0]
        name = os.path.basename(p)
        if '/info/' in p and name.endswith('.trashinfo'):
            name = name[:-10]
        s = copy.deepcopy(scn)
        s['steps'][0]['plan'] = {'fault': [t[3], run.rng.choice([errno.EROFS, errno.EBUSY, errno.EIO, errno.EACCES, errno.EPERM, errno.ENOTEMPTY])]}
        m = dict(by_id[id(scn)], excused=[td, name])
        s['judge_meta'] = dict(s.get('judge_meta') or {}, excused=[td, name])
        refused.append(s)
        rmetas.append(m)
    outr = engine.run_all(run, 'empty-refused', refused)
    by_id2 = {id(s): m for s, m in zip(refused, rmetas)}
    for scn, res in outr:
        judge(run, scn, by_id2[id(scn)], res, section='refused-removal')
        if res['steps'][0].get('exc') is not None:
            run.fail('oracle', 'trash-empty ended with an uncaught exception when the file system refused one removal: the remaining entries were not judged',
                     {'scenario': scn, 'exc': res['steps'][0]['exc'], 'stderr': res['steps'][0]['stderr'][-300:]}, key='uncaught-exception', section='refused-removal')
    # --all-users: the trash directories of EVERY user of the password database, on every volume - also of a user whose home directory
    # does not exist (a system account, a removed home): its $topdir/.Trash-$uid and $topdir/.Trash/$uid hold entries like any other.
    # (--all-users is in the Coq model, Scan.scan_all_users: trace tie and world tie apply.)
    au, aum = [], []
    for days, home in ((7, '/nonexistent'), (7, '/home/other'), (None, '/nonexistent'), (0, '/var/empty')):
        tree = [['d', '/home/u', 0o755], ['d', '/vol1', 0o755], ['d', '/vol1/.Trash', 0o1777]] + scen.canary()
        if home == '/home/other':
            tree.append(['d', home, 0o755])
        ents = []
        lim = NOW - datetime.timedelta(days=days if days is not None else 3)
        for td in ('/vol1/.Trash-1001', '/vol1/.Trash/1001', '/vol1/.Trash-1000'):
            for tag, delta in (('old', -datetime.timedelta(days=2)), ('new', datetime.timedelta(days=2))):
                nm = tag + td[-5:].replace('/', '_').replace('-', '_')
                dt = (lim + delta).strftime(FMT)
                tree += scen.entry(td, nm, 'w/' + nm, dt, 'f')
                ents.append({'td': td, 'name': nm, 'dates': [dt]})
        step = {'cmd': 'empty', 'argv': ['--all-users'] + ([str(days)] if days is not None else []) + ['-f'], 'env': {'TRASH_DATE': NOW.strftime(FMT)},
                'users': [['u', 1000, '/home/u'], ['ghost', 1001, home]]}
        au.append({'tree': tree, 'mounts': ['/vol1'], 'cwd': '/', 'uid': 1000, 'env': {'HOME': '/home/u', 'TRASH_VOLUMES': '/:/vol1'}, 'steps': [step],
                   'judge_meta': {'days': days, 'ents': ents, 'orphans': [], 'micro': 0}})
        aum.append({'days': days, 'ents': ents, 'orphans': [], 'micro': 0})
    by_id3 = {id(s): m for s, m in zip(au, aum)}
    for scn, res in engine.run_all(run, 'all-users-tie', au):
        judge(run, scn, by_id3[id(scn)], res, section='all-users')
    # $topdir/.Trash-$uid that is a symbolic link to a directory (an administrator keeps the users' trash elsewhere on the volume): it is
    # a directory for every purpose (os.path.isdir follows the link), so its old entries are purged like any others
    ln, lnm = [], []
    for days in (7, None, 0):
        tree = [['d', '/home/u', 0o755], ['d', '/vol1', 0o755], ['d', '/vol1/realtd', 0o700], ['l', '/vol1/.Trash-1000', '/vol1/realtd']] + scen.canary()
        ents = []
        lim = NOW - datetime.timedelta(days=days if days is not None else 3)
        for tag, delta in (('old', -datetime.timedelta(days=2)), ('new', datetime.timedelta(days=2))):
            dt = (lim + delta).strftime(FMT)
            tree += scen.entry('/vol1/realtd', tag, 'w/' + tag, dt, 'f')
            ents.append({'td': '/vol1/realtd', 'name': tag, 'dates': [dt]})
        step = {'cmd': 'empty', 'argv': ([str(days)] if days is not None else []) + ['-f'], 'env': {'TRASH_DATE': NOW.strftime(FMT)}}
        ln.append({'tree': tree, 'mounts': ['/vol1'], 'cwd': '/', 'uid': 1000, 'env': {'HOME': '/home/u', 'TRASH_VOLUMES': '/:/vol1'}, 'steps': [step],
                   'judge_meta': {'days': days, 'ents': ents, 'orphans': [], 'micro': 0}})
        lnm.append({'days': days, 'ents': ents, 'orphans': [], 'micro': 0})
    by_id4 = {id(s): m for s, m in zip(ln, lnm)}
    for scn, res in engine.run_all(run, 'linked-trash-dir', ln):
        judge(run, scn, by_id4[id(scn)], res, section='linked-trash-dir')
    if out:
        run.sample({'level': 'state', 'argv': out[0][0]['steps'][0]['argv'], 'entries': metas[0]['ents'][:3]})


def replay(run, payload):
    case = payload.get('case') or {}
    if 'args_tok' in case:
        from common import model_batch
        rep = model_batch([(case['function'], case['args_tok'])])[0]
        print('model:', rep, 'impl recorded:', case.get('impl'))
        if rep != case.get('impl'):
            run.fail('tie', 'function-level disagreement persists', case)
        return
    scn = case.get('scenario')
    if not scn:
        return
    res = sandbox.execute(scn)
    o = res['steps'][0]
    print('trash-empty', scn['steps'][0]['argv'], scn['steps'][0].get('env'), 'exit', o['exit'], esc(o['stderr'][:300]))
    ents = []
    for e in scn['tree']:
        if e[0] == 'f' and '/info/' in e[1] and e[1].endswith('.trashinfo') and isinstance(e[2], str):
            ents.append({'td': e[1].split('/info/')[0], 'name': e[1].split('/info/')[1][:-10],
                         'dates': [l[13:] for l in e[2].split('\n') if l.startswith('DeletionDate=')]})
    a = [x for x in scn['steps'][0]['argv'] if x.isdigit()]
    # the decision monitor (Coq) over the recorded trace, as in the main run
    envd = (scn['steps'][0].get('env') or {}).get('TRASH_DATE')
    param = ('N' if not a else tok_z(int(a[0]))) + '|' + ('N' if not envd else tok_s(envd))
    engine.run_monitors(run, 'decision-monitor', [('decision', param, o, {'scenario': scn})], 'the decision monitor (Coq, C10) rejects the '
                        'implementation trace: a path was removed that is neither an old entry nor an orphan', 'unapproved-removal', silent=True)
    jm = scn.get('judge_meta')
    if jm:
        judge(run, scn, {'days': jm['days'], 'ents': jm['ents'], 'orphans': [tuple(x) for x in jm['orphans']], 'micro': jm.get('micro', 0),
                         'excused': jm.get('excused')}, res)
        if jm.get('excused') and o.get('exc') is not None:
            run.fail('oracle', 'trash-empty ended with an uncaught exception when the file system refused one removal', {'scenario': scn, 'exc': o['exc']},
                     key='uncaught-exception', section='refused-removal')
        return
    judge(run, scn, {'days': int(a[0]) if a else None, 'ents': ents, 'orphans': []}, res)
