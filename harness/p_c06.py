"""C06 - trash-restore never clobbers an existing destination unless --overwrite is given."""
import itertools
import os

import engine
import sandbox
import scen
from common import esc

RULE = ("trace level: exact correspondence of every trash-restore run with the Coq model and the Coq refuse monitor (a Move onto dst only "
        "after lexists(dst) answered False, unless --overwrite) accepting the recorded trace; state level: the FULL table of destination "
        "kinds {absent, regular file, empty dir, non-empty dir, symlink to file, symlink to dir, dangling symlink} x payload kinds {file, "
        "directory tree, symlink} x {--overwrite on/off} x {single, multi-index selections with the refused entry first/last}, in home "
        "and volume trash directories, plus generated names: without --overwrite an existing destination of any kind => non-zero exit, "
        "a message, destination unchanged, payload and info still in the trash, later entries not restored; with --overwrite an existing "
        "non-directory is replaced by the payload. distinct = (dest kind, payload kind, overwrite, selection, trash dir kind).")
ASSUMPTIONS = ["a symlink at the destination (also one pointing to a directory) is 'an existing non-directory' (DESIGN 8.21 no. 12)"]

DEST = ['absent', 'file', 'emptydir', 'dir', 'link_file', 'link_dir', 'dangling', 'link_into_trash', 'twin_file']
PAY = ['f', 'd', 'l']


RULE += ' Since round 8: --overwrite where nothing can be restored (payload missing / move refused: the destination is replaced by the restored entry or not at all) and several versions of one location selected with --overwrite (each replaces the one before, the last stays).'


def dest_nodes(kind, path):
    if kind == 'absent':
        return []
    if kind == 'file':
        return [['f', path, 'already here']]
    if kind == 'twin_file':
        # another file of exactly the payload's size (and, in the sandbox, modification time): not the payload, whatever a shallow
        # comparison says
        return [['f', path, 'PAYLOAD OF X Y', 0o644, 777]]
    if kind == 'emptydir':
        return [['d', path, 0o755]]
    if kind == 'dir':
        return [['d', path, 0o755], ['f', path + '/keep', 'keep']]
    if kind == 'link_file':
        return [['l', path, '/canary/file']]
    if kind == 'link_dir':
        return [['l', path, '/canary/dir']]
    return [['l', path, 'no/where']]


def table(rng, thorough):
    scns, metas = [], []
    for dk, pk, ow, sel, where in itertools.product(DEST, PAY, (False, True), ('single', 'first', 'last'), ('home', 'vol')):
        home = '/home/u'
        if where == 'home':
            td, vol = home + '/.local/share/Trash', '/'
            dest = home + '/work/x y'
            pathv = dest
            other = home + '/work/other'
            otherv = other
        else:
            td, vol = '/vol1/.Trash-1000', '/vol1'
            dest = '/vol1/work/x y'
            pathv = 'work/x y'
            other = '/vol1/work/other'
            otherv = 'work/other'
        nodes = scen.canary() + [['d', home, 0o755], ['d', '/vol1', 0o755], ['d', '/vol1/work', 0o755], ['d', home + '/work', 0o755]]
        nodes += scen.entry(td, 'x y', pathv, '2024-01-02T00:00:00', pk)
        nodes += scen.entry(td, 'other', otherv, '2024-01-01T00:00:00' if sel == 'last' else '2024-01-03T00:00:00', 'f')
        if dk == 'twin_file' and (ow or pk != 'f'):
            continue                      # (judged without --overwrite, against a regular-file payload of that size)
        if dk == 'twin_file':
            for nd in nodes:
                if nd[0] == 'f' and nd[1] == td + '/files/x y':
                    nd += [0o644, 777]    # the same modification time as the twin
        if dk == 'link_into_trash':
            # a "peek" link the user made to the trashed copy itself: still something that exists at the destination (judged without
            # --overwrite only)
            if ow:
                continue
            nodes.append(['l', dest, td + '/files/x y'])
        else:
            nodes += dest_nodes(dk, dest)
        # date sort: 'other' is index 0 when sel == 'last' (older), index 1 otherwise
        if sel == 'single':
            reply = '1\n' if False else ('0\n' if sel != 'last' else '1\n')
            idx_target = 0
            reply = '0\n'
        elif sel == 'first':
            reply = '0,1\n'        # the (possibly refused) entry first, then 'other'
        else:
            reply = '0,1\n'        # 'other' first, then the (possibly refused) entry
        argv = ['/'] + (['--overwrite'] if ow else [])
        scn = {'tree': nodes, 'mounts': ['/vol1'], 'cwd': '/', 'uid': 1000, 'env': {'HOME': home, 'TRASH_VOLUMES': '/:/vol1'},
               'steps': [{'cmd': 'restore', 'argv': argv, 'stdin': reply}]}
        scns.append(scn)
        metas.append({'dk': dk, 'pk': pk, 'ow': ow, 'sel': sel, 'where': where, 'td': td, 'dest': dest, 'other': other})
    return scns, metas


def judge(run, scn, meta, res, section='table'):
    before, o = res['before'], res['steps'][0]
    after = o['after']
    case = {'scenario': scn, 'meta': meta, 'exit': o['exit'], 'stderr': o['stderr'][-400:], 'stdout': o['stdout'][-300:]}
    run.count(section)
    td, dest = meta['td'], meta['dest']
    ent_b = engine.entries_of(before, td)
    ent_a = engine.entries_of(after, td)
    payload = ent_b['x y']['payload']
    exists = meta['dk'] != 'absent'
    dsub_b, dsub_a = sandbox.subtree(before, dest), sandbox.subtree(after, dest)
    key = None
    if not meta['ow']:
        if exists:
            ok = (o['exit'] != 0 and 'Refusing to overwrite' in o['stderr'] and dsub_a == dsub_b
                  and ent_a.get('x y', {}).get('payload') == payload and ent_a.get('x y', {}).get('info') == ent_b['x y']['info'])
            if not ok:
                run.fail('oracle', 'without --overwrite an existing destination (%s) was not refused cleanly' % meta['dk'], case,
                         key='clobbered:%s' % meta['dk'], section=section)
            # multi-index: entries after the refused one stay in the trash, entries before it are restored
            if meta['sel'] == 'first' and meta['other'] in after:
                run.fail('oracle', 'an entry selected after a refused one was restored', case, key='continued-after-refusal', section=section)
            if meta['sel'] == 'last' and meta['other'] not in after:
                run.fail('oracle', 'an entry selected before a refused one was not restored', case, key='earlier-entry-lost', section=section)
        else:
            if o['exit'] != 0 or engine.strip_mtime(dsub_a) != engine.strip_mtime(payload) or 'x y' in ent_a:
                run.fail('oracle', 'restoring onto an absent destination failed', case, key='restore-failed', section=section)
    else:
        nondir = meta['dk'] in ('file', 'link_file', 'link_dir', 'dangling')
        if meta['dk'] == 'absent' or nondir:
            replaced = o['exit'] == 0 and engine.strip_mtime(dsub_a) == engine.strip_mtime(payload) and 'x y' not in ent_a
            if not replaced:
                # classify the two known findings
                if meta['pk'] == 'd' and meta['dk'] in ('file', 'link_file', 'dangling'):
                    key = 'overwrite-dir-over-file'
                elif meta['dk'] == 'link_dir':
                    key = 'overwrite-into-symlinked-dir'
                else:
                    key = 'overwrite-failed:%s:%s' % (meta['dk'], meta['pk'])
                run.fail('oracle', '--overwrite did not replace an existing non-directory (%s) by the restored entry (%s)' % (meta['dk'], meta['pk']),
                         case, key=key, section=section)
        # whatever happens, nothing may be lost: the payload is complete in the trash or at the destination
        in_trash = ent_a.get('x y', {}).get('payload') == payload
        at_dest = any(engine.strip_mtime(sandbox.subtree(after, p)) == engine.strip_mtime(payload) for p in [dest, '/canary/dir/x y', dest + '/x y'])
        if not in_trash and not at_dest:
            run.fail('oracle', '--overwrite lost the trashed entry', case, key='entry-lost', section=section)
    run.nontriv((meta['dk'], meta['pk'], meta['ow'], meta['sel'], meta['where'], o['exit'] != 0))


def same_destination(rng):
    """several entries trashed from the SAME path, more than one of them selected in one reply: the first restore creates the
    destination, every later one must be refused (no --overwrite) and stay whole in the trash"""
    scns, metas = [], []
    for where, pks, reply in itertools.product(('home', 'vol'), (('f', 'f'), ('f', 'd'), ('d', 'f'), ('l', 'f'), ('f', 'f', 'f')),
                                               ('0,1', '1,0', '0-1', '1-0', '0,1,0', '0-2', '2,0')):
        if ('2' in reply) != (len(pks) == 3):
            continue
        home = '/home/u'
        if where == 'home':
            td, dest, pathv = home + '/.local/share/Trash', home + '/work/same', home + '/work/same'
        else:
            td, dest, pathv = '/vol1/.Trash-1000', '/vol1/work/same', 'work/same'
        nodes = scen.canary() + [['d', home, 0o755], ['d', '/vol1', 0o755], ['d', '/vol1/work', 0o755], ['d', home + '/work', 0o755]]
        names = []
        for i, pk in enumerate(pks):
            nm = 'same' if i == 0 else 'same_%d' % i
            nodes += scen.entry(td, nm, pathv, '2024-01-0%dT00:00:00' % (i + 1), pk, data=('copy %d' % i if pk == 'f' else None))
            names.append(nm)                      # listing order (date sort) = names order
        scn = {'tree': nodes, 'mounts': ['/vol1'], 'cwd': '/', 'uid': 1000, 'env': {'HOME': home, 'TRASH_VOLUMES': '/:/vol1'},
               'steps': [{'cmd': 'restore', 'argv': ['/'], 'stdin': reply + '\n'}]}
        scns.append(scn)
        metas.append({'twice': True, 'ow': False, 'td': td, 'dest': dest, 'names': names, 'reply': reply, 'where': where, 'pks': pks})
        if all(pk == 'f' for pk in pks) and len(set(order_of(reply))) == len(order_of(reply)):
            # the same with --overwrite: every selected version replaces the one restored before it, the last one stays
            import copy
            s2 = copy.deepcopy(scn)
            s2['steps'][0]['argv'] = ['/', '--overwrite']
            scns.append(s2)
            metas.append(dict(metas[-1], ow=True))
    return scns, metas


def nested_destinations(rng):
    """a file and, trashed later, the directory it was in (with a newer file of the same name): both selected in one reply.  Whichever is
    restored first creates the other one's destination - the second is refused, stays whole in the trash, and the file that came back is
    the one restored first"""
    scns, metas = [], []
    home = '/home/u'
    td = home + '/.local/share/Trash'
    for reply, sort in itertools.product(('0,1', '1,0'), ('date', 'path')):
        nodes = scen.canary() + [['d', home, 0o755]]
        nodes += scen.entry(td, 'f', home + '/D/f', '2024-01-01T00:00:00', 'f', data='the older f')
        nodes += [['f', td + '/info/D.trashinfo', scen.TI % (scen.quote(home + '/D'), '2024-01-02T00:00:00')],
                  ['d', td + '/files/D', 0o755], ['f', td + '/files/D/f', 'the newer f'], ['f', td + '/files/D/g', 'g']]
        scn = {'tree': nodes, 'mounts': [], 'cwd': '/', 'uid': 1000, 'env': {'HOME': home, 'TRASH_VOLUMES': '/'},
               'steps': [{'cmd': 'restore', 'argv': ['/', '--sort', sort], 'stdin': reply + '\n'}]}
        scns.append(scn)
        # listing order: by date f (older) then D; by path the key is path + str(date): '/home/u/D/f2024...' < '/home/u/D2024...' ('/' < '2')
        order = ['f', 'D']
        metas.append({'nested': True, 'ow': False, 'td': td, 'order': order, 'reply': reply, 'sort': sort})
    return scns, metas


def judge_nested(run, scn, meta, res, section='nested-destination'):
    before, o = res['before'], res['steps'][0]
    after = o['after']
    case = {'scenario': scn, 'meta': meta, 'exit': o['exit'], 'stderr': o['stderr'][-400:], 'stdout': o['stdout'][-300:]}
    run.count(section)
    sel = [meta['order'][int(i)] for i in meta['reply'].split(',')]
    first, second = sel[0], sel[1]
    eb, ea = engine.entries_of(before, meta['td']), engine.entries_of(after, meta['td'])
    want_f = b'the older f' if first == 'f' else b'the newer f'
    got = after.get('/home/u/D/f')
    run.nontriv(('nested', meta['reply'], meta['sort'], o['exit'] != 0))
    if got is None or got[2] != want_f:
        run.fail('oracle', 'the file restored first was replaced by the entry restored after it in the same reply', dict(case, file_now=str(got)[:100]),
                 key='nested-destination-clobbered', section=section)
    if ea.get(second) != eb.get(second):
        run.fail('oracle', 'the entry whose destination had just been created by the same run did not stay whole in the trash', case,
                 key='nested-destination-entry-lost', section=section)
    if o['exit'] == 0:
        run.fail('oracle', 'restoring onto a destination created a moment ago by the same run was not refused', case,
                 key='nested-destination-not-refused', section=section)


def foreign_paths(rng):
    """info files written by another tool: a Path that is not in normal form (a symlinked directory followed by '..', doubled or
    trailing slashes, '.' components).  The destination is what the KERNEL resolves the path to; if something is there the entry
    must be refused (no --overwrite) - judging a textually tidied-up path instead would look at another place"""
    scns, metas = [], []
    home = '/home/u'
    cases = [('work/link/../report.txt', 'work/archive/report.txt'), ('work//report.txt', 'work/report.txt'), ('work/./report.txt', 'work/report.txt'),
             ('work/archive/2024/../report.txt', 'work/archive/report.txt')]
    # '..' after a directory that does not exist (yet): the existence probe cannot see through it, creating the parents must not paper
    # over that - with something at the place behind it the entry is refused (only the occupied case is judged: with nothing
    # there the kernel has no answer to what the path designates)
    cases_occupied_only = [('work/new/../report.txt', 'work/report.txt')]
    for (spelled, real), occupied, pk in (list(itertools.product(cases, (True, False), ('f', 'd'))) +
                                          list(itertools.product(cases_occupied_only, (True,), ('f', 'd')))):
        td = home + '/.local/share/Trash'
        nodes = scen.canary() + [['d', home + '/work/archive/2024', 0o755], ['l', home + '/work/link', 'archive/2024']]
        nodes += scen.entry(td, 'report.txt', home + '/' + spelled, '2024-01-02T00:00:00', pk)
        # a decoy at the textually collapsed place, so that a wrong probe has something (or nothing) to see
        collapsed = os.path.normpath(home + '/' + spelled)
        dest = home + '/' + real
        if occupied:
            nodes.append(['f', dest, 'already here'])
        elif collapsed != dest:
            nodes.append(['f', collapsed, 'a file at the tidied-up path, not at the destination'])
        scn = {'tree': nodes, 'mounts': [], 'cwd': '/', 'uid': 1000, 'env': {'HOME': home, 'TRASH_VOLUMES': '/'},
               'steps': [{'cmd': 'restore', 'argv': ['/'], 'stdin': '0\n'}]}
        scns.append(scn)
        metas.append({'foreign': True, 'ow': False, 'td': td, 'dest': dest, 'spelled': spelled, 'occupied': occupied, 'pk': pk, 'collapsed': collapsed})
    return scns, metas


def judge_foreign(run, scn, meta, res, section='foreign-path'):
    before, o = res['before'], res['steps'][0]
    after = o['after']
    case = {'scenario': scn, 'meta': meta, 'exit': o['exit'], 'stderr': o['stderr'][-400:], 'stdout': o['stdout'][-300:]}
    run.count(section)
    eb, ea = engine.entries_of(before, meta['td']), engine.entries_of(after, meta['td'])
    run.nontriv(('foreign', meta['spelled'], meta['occupied'], meta['pk'], o['exit'] != 0))
    if meta['occupied']:
        if sandbox.subtree(after, meta['dest']) != sandbox.subtree(before, meta['dest']) or ea.get('report.txt') != eb.get('report.txt') or o['exit'] == 0:
            run.fail('oracle', 'the place the recorded Path really designates was occupied, yet the entry was not refused cleanly', case,
                     key='foreign-path-clobbered', section=section)
    else:
        if o['exit'] != 0 or 'report.txt' in ea or engine.strip_mtime(sandbox.subtree(after, meta['dest'])) != engine.strip_mtime(eb['report.txt']['payload']):
            run.fail('oracle', 'the place the recorded Path designates was free, yet the entry was not restored there', case,
                     key='foreign-path-not-restored', section=section)
        if meta['collapsed'] != meta['dest'] and sandbox.subtree(after, meta['collapsed']) != sandbox.subtree(before, meta['collapsed']):
            run.fail('oracle', 'restoring changed the file at the textually collapsed path', case, key='foreign-path-collapsed-touched', section=section)


def order_of(reply):
    out = []
    for part in reply.split(','):
        if '-' in part:
            a, b = part.split('-')
            out += list(range(int(a), int(b) + 1))
        else:
            out.append(int(part))
    return out


def judge_same(run, scn, meta, res, section='same-destination'):
    before, o = res['before'], res['steps'][0]
    after = o['after']
    case = {'scenario': scn, 'meta': meta, 'exit': o['exit'], 'stderr': o['stderr'][-400:], 'stdout': o['stdout'][-300:]}
    run.count(section)
    eb, ea = engine.entries_of(before, meta['td']), engine.entries_of(after, meta['td'])
    sel = order_of(meta['reply'])
    first = meta['names'][sel[0]] if sel else None
    run.nontriv(('same', meta['where'], meta['pks'], meta['reply'], o['exit'] != 0))
    if not sel:
        return                                    # '1-0' is an empty range: nothing selected
    later = [meta['names'][i] for i in sel[1:]]
    dsub = sandbox.subtree(after, meta['dest'])
    if meta.get('ow'):
        last = meta['names'][sel[-1]]
        if engine.strip_mtime(dsub) != engine.strip_mtime(eb[last]['payload']) or o['exit'] != 0 or any(meta['names'][i] in ea for i in sel):
            run.fail('oracle', '--overwrite with several versions of one location selected: every selected version must be restored in turn '
                     '(each replacing the one before), the last one stays, exit 0', case, key='overwrite-same-destination', section=section)
        return
    if engine.strip_mtime(dsub) != engine.strip_mtime(eb[first]['payload']):
        run.fail('oracle', 'the destination is not the entry restored first: a later entry of the same reply replaced it', case,
                 key='same-destination-clobbered', section=section)
    if len(sel) > 1:
        nxt = later[0]
        if nxt != first and (ea.get(nxt, {}).get('payload') != eb[nxt]['payload'] or ea.get(nxt, {}).get('info') != eb[nxt]['info']):
            run.fail('oracle', 'an entry whose destination had just been created by the same run did not stay whole in the trash', case,
                     key='same-destination-entry-lost', section=section)
        if o['exit'] == 0 and nxt != first:
            run.fail('oracle', 'restoring onto the destination created a moment ago was not refused', case, key='same-destination-not-refused',
                     section=section)


def unrestorable(rng):
    """--overwrite, something at the destination, and a restore that cannot succeed (the payload is missing - what an interrupted earlier
    restore leaves -, or the move is refused): what is at the destination is replaced BY THE RESTORED ENTRY or not at all"""
    scns, metas = [], []
    for dk, why in itertools.product(('file', 'dir', 'link_file', 'dangling'), ('no-payload', 'move-refused')):
        home = '/home/u'
        td, dest = home + '/.local/share/Trash', home + '/work/thing'
        nodes = scen.canary() + [['d', home, 0o755], ['d', home + '/work', 0o755]] + dest_nodes(dk, dest)
        nodes += scen.entry(td, 'thing', dest, '2024-01-01T00:00:00', 'f', data='trashed copy')
        if why == 'no-payload':
            nodes = [n for n in nodes if n[1] != td + '/files/thing']
            nodes.append(['d', td + '/files', 0o700])
        step = {'cmd': 'restore', 'argv': ['/', '--overwrite'], 'stdin': '0\n'}
        if why == 'move-refused':
            step['plan'] = {'faults': {'move': {'errno': 13}}}
        scns.append({'tree': nodes, 'mounts': [], 'cwd': '/', 'uid': 1000, 'env': {'HOME': home, 'TRASH_VOLUMES': '/'}, 'steps': [step]})
        metas.append({'unrestorable': True, 'ow': True, 'dk': dk, 'why': why, 'dest': dest, 'td': td})
    return scns, metas


def judge_unrestorable(run, scn, meta, res, section='unrestorable'):
    before, o = res['before'], res['steps'][0]
    after = o['after']
    run.count(section)
    case = {'scenario': scn, 'meta': meta, 'exit': o['exit'], 'stderr': o['stderr'][-400:]}
    db, da = sandbox.subtree(before, meta['dest']), sandbox.subtree(after, meta['dest'])
    restored = engine.entries_of(after, meta['td']).get('thing') is None
    if not restored and engine.strip_mtime(db) != engine.strip_mtime(da):
        run.fail('oracle', '--overwrite: nothing was restored (%s), yet what was at the destination (%s) is gone or altered' % (meta['why'], meta['dk']),
                 case, key='overwrite-destroyed-without-restoring', section=section)
    run.nontriv(('unrestorable', meta['dk'], meta['why'], o['exit'] != 0))


def run(run, thorough):
    s5, m5 = unrestorable(run.rng)
    for scn, meta, res in zip(s5, m5, sandbox.execute_many(s5)):
        if res.get('harness_error') or not res.get('steps'):
            run.fail('harness', 'sandbox failure', {'error': res.get('harness_error'), 'scenario': scn})
            continue
        judge_unrestorable(run, scn, meta, res)
    s3, m3 = foreign_paths(run.rng)
    out3 = engine.run_all(run, 'restore-foreign', s3)
    by3 = {id(s): m for s, m in zip(s3, m3)}
    for scn, res in out3:
        judge_foreign(run, scn, by3[id(scn)], res)
    s4, m4 = nested_destinations(run.rng)
    out4 = engine.run_all(run, 'restore-nested', s4)
    by4 = {id(s): m for s, m in zip(s4, m4)}
    for scn, res in out4:
        judge_nested(run, scn, by4[id(scn)], res)
    s2, m2 = same_destination(run.rng)
    out2 = engine.run_all(run, 'restore-same', s2)
    by2 = {id(s): m for s, m in zip(s2, m2)}
    jobs2 = []
    for scn, res in out2:
        judge_same(run, scn, by2[id(scn)], res)
        jobs2.append(('refuse', 'b1' if by2[id(scn)].get('ow') else 'b0', res['steps'][0], {'scenario': scn}))
    engine.run_monitors(run, 'refuse-monitor-same', jobs2, 'the refuse monitor (Coq, C06) rejects the implementation trace: a move onto a '
                        'destination that was not probed absent', 'move-onto-existing')
    scns, metas = table(run.rng, thorough)
    out = engine.run_all(run, 'restore', scns)
    by_id = {id(s): m for s, m in zip(scns, metas)}
    jobs = []
    for scn, res in out:
        m = by_id[id(scn)]
        judge(run, scn, m, res)
        jobs.append(('refuse', 'b1' if m['ow'] else 'b0', res['steps'][0], {'scenario': scn}))
    engine.run_monitors(run, 'refuse-monitor', jobs, 'the refuse monitor (Coq, C06) rejects the implementation trace: a move onto a destination '
                        'that was not probed absent', 'move-onto-existing')
    run.exhaustive.append('table: 7 destination kinds x 3 payload kinds x overwrite x 3 selections x 2 trash dir kinds')
    if scns:
        run.sample({'level': 'state', 'meta': metas[5], 'argv': scns[5]['steps'][0]['argv'], 'reply': scns[5]['steps'][0]['stdin']})


def replay(run, payload):
    case = payload.get('case') or {}
    scn, meta = case.get('scenario'), case.get('meta')
    if not scn:
        return
    res = sandbox.execute(scn)
    o = res['steps'][0]
    print('trash-restore', scn['steps'][0]['argv'], repr(scn['steps'][0].get('stdin')), 'exit', o['exit'])
    print(' stdout:', esc(o['stdout'][:400]))
    print(' stderr:', esc(o['stderr'][:400]))
    if meta and meta.get('unrestorable'):
        judge_unrestorable(run, scn, meta, res, 'replay')
        return
    if meta and meta.get('nested'):
        judge_nested(run, scn, meta, res)
    elif meta and meta.get('foreign'):
        judge_foreign(run, scn, meta, res)
    elif meta and meta.get('twice'):
        judge_same(run, scn, meta, res)
    elif meta:
        judge(run, scn, meta, res)
        engine.run_monitors(run, 'refuse-monitor', [('refuse', 'b1' if meta['ow'] else 'b0', o, {'scenario': scn})], 'refuse monitor rejects', 'move-onto-existing')
    if not meta or meta.get('twice') or meta.get('nested') or meta.get('foreign'):
        # the refuse monitor (Coq) over the recorded trace, for the cases that carry no table meta
        ow = '--overwrite' in (scn['steps'][0].get('argv') or [])
        engine.run_monitors(run, 'refuse-monitor', [('refuse', 'b1' if ow else 'b0', o, {'scenario': scn})], 'refuse monitor rejects', 'move-onto-existing')
