"""C17 - under file-system errors trash-put terminates, falls back, and reports honestly."""
import copy
import errno

import engine
import putlib
import sandbox
import scen
import tracelevel
from common import esc

RULE = ("trace level: every faulted run must still issue exactly the operations of the Coq model (the model is run with the answers the "
        "faulted run received, errors included) and the Coq put-discipline monitor must accept it; fault level: for each scenario every "
        "operation that can fail (makedirs, exclusive create, write, close, move, remove, rmtree, realpath, stat, getsize - library "
        "boundary - and every syscall-level mutation inside shutil.move / makedirs) is made to fail once with each errno of "
        "{EACCES, EROFS, ENOSPC, EIO, ENAMETOOLONG, EEXIST, ENOENT, EXDEV, EBUSY} (quick: sampled; thorough: all, plus pairs and "
        "persistent faults on an operation kind); judged: termination within an operation budget, then the C01 dichotomy on the snapshot "
        "(a stray info is tolerated only when the fault hit its own removal/close), exit status and diagnostics. "
        "distinct = (operation kind faulted, errno, candidate class, outcome).")
ASSUMPTIONS = ["os.path.exists/lexists/isdir/islink/ismount, os.access never raise: they answer False (CPython)"]

ERRNOS = [errno.EACCES, errno.EROFS, errno.ENOSPC, errno.EIO, errno.ENAMETOOLONG, errno.EEXIST, errno.ENOENT, errno.EXDEV, errno.EBUSY]
CAN_FAIL = ('makedirs', 'open', 'write', 'close', 'move', 'remove', 'unlink', 'rmtree', 'realpath', 'stat', 'getsize', 'abspath')


RULE += ' Since round 8 one base scenario in seven has a nonexistent argument (the empty string included); persistent EEXIST is not injected (not a fault another name cannot cure).'


def base_scenarios(rng, n):
    out = []
    for i in range(n):
        lay = scen.Layout(rng, nested=False)
        s, m = putlib.gen_put(rng, nargs=rng.randint(1, 2), allow_dots=False, allow_missing=i % 7 == 3, allow_mount=False, options=False, layout=lay,
                              allow_bad_utf8=False)
        if rng.random() < 0.3:
            s['steps'][0]['argv'] = ['--home-fallback'] + s['steps'][0]['argv']
            s['steps'][0]['env'] = {'TRASH_ENABLE_HOME_FALLBACK': '1'}
        if rng.random() < 0.3:
            # -f forgives an argument that does not exist; it forgives no error met while trashing one that does
            s['steps'][0]['argv'] = [rng.choice(['-f', '-f', '-fv'])] + s['steps'][0]['argv']
        out.append((s, m))
    return out


def judge(run, scn, meta, res, plan, section):
    o = res['steps'][0]
    case = {'scenario': scn, 'plan': plan, 'exit': o['exit'], 'exc': o['exc'], 'stderr': o['stderr'][-600:]}
    run.count(section)
    if o.get('looping') or o.get('timeout'):
        run.fail('oracle', 'trash-put does not terminate under a file-system error', dict(case, first_ops=[t[0] for t in o['trace'][:40]]),
                 key='non-termination', section=section)
        return 'loop'
    # a stray info is tolerated when the fault hit a removal / close (the file system refused the cleanup)
    hit = None
    if 'fault' in plan:
        k = plan['fault'][0]
        for t in o['trace']:
            if len(t) > 3 and t[3] == k:
                hit = t[0]
        if plan.get('second'):
            for t in o['trace']:
                if len(t) > 3 and t[3] == plan['second'][0] and t[0] in ('remove', 'unlink', 'rmtree', 'close'):
                    hit = t[0]
    elif 'faults' in plan:
        hit = list(plan['faults'])[0]
    elif 'sysfault' in plan:
        k = plan['sysfault'][0]
        hit = o['muts'][k - 1] if k - 1 < len(o.get('muts', [])) else None
    elif 'sysfaults' in plan:
        k = plan['sysfaults'][-1][0]
        hit = 'move:' + (o['muts'][k - 1] if k - 1 < len(o.get('muts', [])) else '?')
    tolerate = hit in ('remove', 'unlink', 'rmtree', 'close')
    # whichever way the fault was injected: the file system refused the removal of the info file itself (stated exception)
    for tr in o['trace']:
        if tr[0] in ('remove', 'unlink', 'rmtree') and tr[2] and tr[2][0] == 'err' and tr[1] and str(tr[1][0]).endswith('.trashinfo'):
            tolerate = True
    nf = len(run.failures)
    outs = putlib.conservation(run, scn, meta, res, section, allow_stray_if_refused=tolerate)
    # known finding: shutil.move degrades to copy + delete whenever rename is refused (EXDEV under the home fallback, or any
    # other error); when that copying move then fails half-way, the copy it had made stays under files/ without .trashinfo
    # (trash-put reports the failure and removes the info; a later candidate may then trash what is left of the source)
    failed_copying_move = False
    seen_rename = False
    for t in o['trace']:
        if t[0] == 'move' and t[2] and t[2][0] == 'err':
            failed_copying_move = True
    copied = any(m in ('sendfile', 'copy_file_range', 'symlink') for m in o.get('muts', [])) or o.get('muts', []).count('mkdir') > 6
    if failed_copying_move and copied:
        before, after = res['before'], o['after']
        pairs_, strays_, orphans_ = putlib.new_trash_items(before, after)
        orphan_trees = [putlib.loose(sandbox.subtree(after, td + '/files/' + nm)) for td, nm in orphans_]
        conserved = True
        for a in meta['args']:
            if not a['entry']:
                continue
            ent = engine.physical(before, a['entry'])
            orig = putlib.loose(sandbox.subtree(before, ent))
            if not orig:
                continue
            here = putlib.loose(sandbox.subtree(after, ent)) == orig
            inpair = any(putlib.loose(sandbox.subtree(after, td + '/files/' + nm)) == orig for td, nm in pairs_)
            if not (here or inpair or orig in orphan_trees):
                conserved = False          # the content exists NOWHERE complete: that is not the known finding
        if conserved:
            for f in run.failures[nf:]:
                if f.get('key') in ('orphan-payload', 'unexplained-entry') or str(f.get('key')).startswith('half-trashed'):
                    f['key'] = 'orphan-copy-after-failed-copying-move'
    if o['exc'] is not None and o['exc'] not in ():
        # an uncaught exception is a termination with failure (exit 1); C16 objects to it, C17 only if the state is bad (judged above)
        pass
    else:
        allok = all(x == 'trashed' for x in outs if x != 'none')
        av = scn['steps'][0]['argv']
        opts = av[:av.index('--')] if '--' in av else [a for a in av if a.startswith('-')]
        forgiving = any(a.startswith('-') and not a.startswith('--') and 'f' in a for a in opts) or '--force' in opts
        if any(a.get('expect') == 'missing' for a in meta['args']) and not forgiving:
            allok = False                 # an argument that does not exist (the empty string included) is a failure unless -f forgives it
        if (o['exit'] == 0) != allok and 'violated' not in outs:
            run.fail('oracle', 'under a fault the exit status does not match what happened', dict(case, outcomes=outs), key='dishonest-exit', section=section)
    run.nontriv((hit, (plan.get('fault') or plan.get('sysfault') or (plan.get('sysfaults') or [[0, 0]])[-1] if not plan.get('faults') else [0, list(plan['faults'].values())[0]['errno']])[1], tuple(outs), o['exit']))
    return 'ok'


def corpus(run):
    import glob, json, os
    from common import VERIF
    for f in sorted(glob.glob(os.path.join(VERIF, 'corpus', 'C17', '*.json'))):
        payload = json.load(open(f))
        scn = (payload.get('case') or {}).get('scenario')
        if not scn:
            continue
        res = sandbox.execute(scn)
        av = scn['steps'][0]['argv']
        av = av[av.index('--') + 1:] if '--' in av else [a for a in av if not a.startswith('-')]
        args = [{'arg': a, 'kind': '?', 'entry': os.path.normpath(os.path.join(scn.get('cwd', '/'), a)), 'expect': '?'} for a in av]
        judge(run, scn, {'args': args, 'mode': 'plain'}, res, scn['steps'][0].get('plan') or {}, 'corpus')


def run(run, thorough):
    corpus(run)
    rng = run.rng
    bases = base_scenarios(rng, 60 if not thorough else 400)
    base_scns = [s for s, m in bases]
    base_res = sandbox.execute_many(base_scns)
    faulted, metas, plans = [], [], []
    for (scn, meta), res in zip(bases, base_res):
        if res.get('harness_error') or not res.get('steps'):
            continue
        o = res['steps'][0]
        cand = [t[3] for t in o['trace'] if t[0] in CAN_FAIL and len(t) > 3 and t[3]]
        sysc = list(range(1, o.get('nmut', 0) + 1))
        picks = []
        if thorough:
            picks = [('fault', k, e) for k in cand for e in ERRNOS] + [('sysfault', k, e) for k in sysc for e in ERRNOS[:5]]
        else:
            for k in cand:
                picks.append(('fault', k, rng.choice(ERRNOS)))
            for k in rng.sample(sysc, min(len(sysc), 6)):
                picks.append(('sysfault', k, rng.choice(ERRNOS)))
        # persistent faults on one operation kind (the retry loop must not spin).  EEXIST is not among them: "this name is taken" is
        # answered by trying the next name, and a file system on which every name is taken for ever is neither a single fault nor a
        # pair of faults (the property's quantifier); EEXIST stays in the single and paired faults above
        for opn in ('open', 'write', 'makedirs', 'move'):
            for e in ([errno.EACCES, errno.ENOSPC, errno.EROFS, errno.ENAMETOOLONG] if thorough else [rng.choice([errno.EACCES, errno.ENOSPC, errno.EROFS, errno.ENAMETOOLONG])]):
                picks.append(('faults', opn, e))
        # pairs
        if len(cand) >= 2:
            for _ in range(3 if not thorough else 20):
                a, b = sorted(rng.sample(cand, 2))
                picks.append(('pair', (a, b), rng.choice(ERRNOS)))
        for kind, k, e in picks:
            s = copy.deepcopy(scn)
            if kind == 'fault':
                plan = {'fault': [k, e]}
            elif kind == 'sysfault':
                plan = {'sysfault': [k, e]}
            elif kind == 'faults':
                plan = {'faults': {k: {'errno': e}}}
            else:
                plan = {'fault': [k[0], e], 'sysfault': None}
                plan = {'fault': [k[0], e], 'faults': {}}
                plan['second'] = [k[1], e]
            s['steps'][0]['plan'] = plan
            s['steps'][0]['maxlib'] = 3000
            faulted.append(s)
            metas.append(meta)
            plans.append(plan)
    # a hundred names taken, then a collision on the first random suffix: 101 refused exclusive creates (each answered EEXIST), the 102nd
    # succeeds - a long search is still a search that ends well
    many = []
    for taken in (99, 100, 101):
        tdh = '/home/u/.local/share/Trash'
        tree = [['d', '/home/u', 0o755], ['d', '/home/u/w', 0o755], ['f', '/home/u/w/foo', 'the hundred-and-first foo'], ['d', tdh + '/files', 0o700]]
        for i in range(100):
            tree.append(['f', tdh + '/info/foo%s.trashinfo' % ('' if i == 0 else '_%d' % i), scen.TI % ('/old/foo%d' % i, '2001-01-01T00:00:00')])
        rnd = {99: [12345, 777], 100: [5, 12345, 777], 101: [5, 7, 12345, 777]}[taken]
        many.append({'tree': tree, 'mounts': [], 'cwd': '/', 'uid': 0, 'env': {'HOME': '/home/u', 'TRASH_VOLUMES': '/'},
                     'steps': [{'cmd': 'put', 'argv': ['--', '/home/u/w/foo'], 'now': [2024, 5, 6, 7, 8, 9, 0], 'randints': rnd, 'maxlib': 3000}],
                     'judge_meta': {'args': [{'arg': '/home/u/w/foo', 'kind': 'f', 'entry': '/home/u/w/foo', 'expect': 'trash'}], 'cwd': '/',
                                    'lay_home_trash': tdh, 'mode': 'plain', 'mounts': []}})
    for scn, res in zip(many, sandbox.execute_many(many)):
        if res.get('harness_error') or not res.get('steps'):
            run.fail('harness', 'sandbox failure', {'error': res.get('harness_error'), 'scenario': scn})
            continue
        o = res['steps'][0]
        run.count('long-name-search')
        nf = len(run.failures)
        outs = putlib.conservation(run, scn, scn['judge_meta'], res, 'long-name-search')
        if len(run.failures) == nf and (o['exit'] != 0 or outs != ['trashed']):
            run.fail('oracle', 'a hundred names were taken and the first random suffix collided: trash-put met no file-system error, yet it did not '
                     'trash the file', {'scenario': scn, 'exit': o['exit'], 'stderr': o['stderr'][-300:], 'outcomes': outs}, key='long-search-failed',
                     section='long-name-search')
        run.nontriv(('long-search', len(scn['steps'][0]['randints']), o['exit']))
    # the entry disappears (somebody else removes it) between the creation of its .trashinfo and the move: the move fails with ENOENT,
    # the reservation must be undone and the failure reported - not success with a .trashinfo that describes nothing
    vanish = []
    for (scn, meta), res in zip(bases, base_res):
        if res.get('harness_error') or not res.get('steps') or len(meta['args']) != 1 or not meta['args'][0]['entry']:
            continue
        muts = res['steps'][0].get('muts', [])
        if 'write' not in muts or res['steps'][0].get('exit') != 0:
            continue
        s = copy.deepcopy(scn)
        s['steps'][0]['plan'] = {'midfs': {'after': muts.index('write') + 1, 'ops': [['remove', engine.physical(res['before'], meta['args'][0]['entry'])]]}}
        vanish.append(s)
    outv = engine.run_all(run, 'vanishing-source', vanish[:40 if not thorough else 400], strict=False)
    for scn, res in outv:
        o = res['steps'][0]
        run.count('vanishing-source-state')
        pairs, strays, orphans = putlib.new_trash_items(res['before'], o['after'])
        if o.get('looping') or o['exit'] == 0 or strays or pairs:
            run.fail('oracle', 'the entry vanished before the move: trash-put must report the failure and leave no .trashinfo behind',
                     {'scenario': scn, 'exit': o['exit'], 'strays': strays, 'pairs': pairs, 'stderr': o['stderr'][-300:]},
                     key='vanished-source-not-reported', section='vanishing-source-state')
        run.nontriv(('vanish', o['exit'], bool(strays)))
    # two syscall-level faults inside ONE library call: the rename of a directory is refused (the move degrades to copy + delete),
    # then one of the last steps of the delete is refused too
    firsts = []
    for (scn, meta), res in zip(bases, base_res):
        if res.get('harness_error') or not res.get('steps'):
            continue
        muts = res['steps'][0].get('muts', [])
        if any(a['kind'] == 'd' for a in meta['args']):
            for k, mname in enumerate(muts, 1):
                if mname == 'rename':
                    s1 = copy.deepcopy(scn)
                    s1['steps'][0]['plan'] = {'sysfaults': [[k, errno.EACCES]]}
                    firsts.append((s1, meta, k))
    r1 = sandbox.execute_many([s for s, m, k in firsts]) if firsts else []
    for (s1, meta, k), res1 in zip(firsts, r1):
        if res1.get('harness_error') or not res1.get('steps'):
            continue
        n1 = res1['steps'][0].get('nmut', 0)
        for k2 in range(max(k + 1, n1 - 3), n1 + 1):
            s2 = copy.deepcopy(s1)
            plan = {'sysfaults': [[k, errno.EACCES], [k2, errno.EACCES]]}
            s2['steps'][0]['plan'] = plan
            s2['steps'][0]['maxlib'] = 3000
            faulted.append(s2)
            metas.append(meta)
            plans.append(plan)
    out = engine.run_all(run, 'faulted', faulted)
    idx = {id(s): i for i, s in enumerate(faulted)}
    jobs = []
    for scn, res in out:
        i = idx[id(scn)]
        r = judge(run, scn, metas[i], res, plans[i], 'fault')
        if r == 'ok' and not res['steps'][0].get('exc'):
            jobs.append(('put', 'x', res['steps'][0], {'scenario': scn, 'plan': plans[i]}))
    engine.run_monitors(run, 'put-monitor', jobs, 'the put-discipline monitor (Coq, C17) rejects the faulted implementation trace: dishonest report '
                        'or payload before info', 'put-discipline-under-faults', silent=True)
    if faulted:
        run.sample({'level': 'fault', 'argv': [esc(a) for a in faulted[0]['steps'][0]['argv']], 'plan': plans[0]})
        run.notes.append('faulted runs: %d over %d base scenarios' % (len(faulted), len(bases)))


def replay(run, payload):
    case = payload.get('case') or {}
    scn = case.get('scenario')
    if not scn:
        return
    import os
    res = sandbox.execute(scn)
    o = res['steps'][0]
    print('trash-put', [esc(a) for a in scn['steps'][0]['argv']], 'plan', scn['steps'][0].get('plan'), 'exit', o['exit'], 'exc', o['exc'], 'looping', o.get('looping'))
    print(' stderr:', esc(o['stderr'][:800]))
    av = scn['steps'][0]['argv']
    av = av[av.index('--') + 1:] if '--' in av else [a for a in av if not a.startswith('-')]
    args = [{'arg': a, 'kind': '?', 'entry': os.path.normpath(os.path.join(scn.get('cwd', '/'), a)), 'expect': '?'} for a in av]
    plan = scn['steps'][0].get('plan') or {}
    if case.get('key') == 'vanished-source-not-reported' or payload.get('key') == 'vanished-source-not-reported':
        pairs, strays, orphans = putlib.new_trash_items(res['before'], o['after'])
        if o.get('looping') or o['exit'] == 0 or strays or pairs:
            run.fail('oracle', 'the entry vanished before the move: trash-put must report the failure and leave no .trashinfo behind',
                     {'scenario': scn, 'exit': o['exit'], 'strays': strays, 'pairs': pairs}, key='vanished-source-not-reported', section='replay')
        return
    judge(run, scn, scn.get('judge_meta') or {'args': args, 'mode': 'plain'}, res, plan, 'fault')
