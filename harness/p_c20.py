"""C20 - all commands read a trash directory the same way (and the way the spec says)."""
import copy
import datetime
import os

import engine
import fn_codec
import sandbox
import scen
from common import esc

RULE = ("function level: parse_path / parse_deletion_date / maybe_parse_deletion_date / parse_original_location / unquote of /repo vs the Coq "
        "functions (exhaustive small-scope cores of C03); trace level: exact correspondence of every list / restore / rm / empty run with the "
        "Coq model; state level, a four-way differential per entry: for generated .trashinfo contents (absolute and relative paths, "
        "percent-escapes of any byte incl. invalid UTF-8, duplicate Path/DeletionDate keys, extra keys and sections, missing header, CRLF, "
        "trailing spaces, offsets on dates) in every kind of trash directory (home on / or on its own volume, .Trash/$uid, .Trash-$uid, "
        "--trash-dir): the path trash-list prints must be the path trash-restore shows, trash-rm given exactly that path must remove exactly "
        "that entry, and trash-empty DAYS must purge it iff the date trash-list shows is older than the threshold (one second either side). "
        "distinct = (content variant, dir kind, home on own volume?, relative?).")
ASSUMPTIONS = ["the same set of trash directories for all commands (restore sees the mount list the others get from TRASH_VOLUMES)"]

FMT = '%Y-%m-%dT%H:%M:%S'


RULE += ' Since round 8: an empty Path= value.'
RULE += ' Since round 10: foreign group headers before and between the two keys.'


def contents(rng, rel, k):
    p = rng.choice(['d/f%d' % k, 'a b/%d' % k, 'pc%%41/%d' % k, 'x%%E9y/%d' % k, 'n%%0Al/%d' % k, 'pl+us/%d' % k, 'a+b%%2Bc %d' % k, 'plain%d' % k, 'tr %d ' % k, 'd/../up%d' % k, './dot%d' % k, 'd//dbl%d' % k, 'd/trail%d/' % k] +
                   ([''] if k == 0 else []))       # an empty value: the entry is the $topdir itself, for every command
    path = p if rel else '/home/u/' + p
    date = rng.choice(['2024-01-01T00:00:00', '2023-06-15T08:09:10', '2000-02-29T12:00:00'])
    v = rng.choice(['plain', 'dup_path', 'dup_date', 'extra', 'nohdr', 'crlf', 'trail', 'bad_first_date', 'tz', 'lower', 'no_date', 'spaces_key', 'mid_group', 'group_first'])
    if v == 'plain':
        t = '[Trash Info]\nPath=%s\nDeletionDate=%s\n' % (path, date)
    elif v == 'dup_path':
        t = '[Trash Info]\nPath=%s\nPath=/other/second\nDeletionDate=%s\n' % (path, date)
    elif v == 'dup_date':
        t = '[Trash Info]\nPath=%s\nDeletionDate=%s\nDeletionDate=1999-01-01T00:00:00\n' % (path, date)
    elif v == 'extra':
        t = '[Trash Info]\nFoo=bar\nPath=%s\nX-Key=1\nDeletionDate=%s\n[Other Section]\nPath=/zzz\n' % (path, date)
    elif v == 'nohdr':
        t = 'Path=%s\nDeletionDate=%s\n' % (path, date)
    elif v == 'crlf':
        t = '[Trash Info]\r\nPath=%s\r\nDeletionDate=%s\r\n' % (path, date)
    elif v == 'trail':
        t = '[Trash Info]\nPath=%s\nDeletionDate=%s  \n' % (path, date)
    elif v == 'bad_first_date':
        t = '[Trash Info]\nPath=%s\nDeletionDate=not a date\nDeletionDate=%s\n' % (path, date)
    elif v == 'tz':
        t = '[Trash Info]\nPath=%s\nDeletionDate=%s+01:00\n' % (path, date)
    elif v == 'lower':
        t = '[Trash Info]\nPath=%s\nDeletionDate=%s\n' % (path, date.replace('T', 't'))
    elif v == 'mid_group':       # another group header between the two keys: no reader knows about groups, the date below it counts
        t = '[Trash Info]\nPath=%s\n[X-Extra Group]\nDeletionDate=%s\n' % (path, date)
    elif v == 'group_first':     # ... and so do both keys when they come after a foreign group header
        t = '[X-Before]\nFoo=1\n[Trash Info]\nX-Note=[bracket]\nPath=%s\nDeletionDate=%s\n' % (path, date)
    elif v == 'no_date':
        t = '[Trash Info]\nPath=%s\n' % path
    else:
        t = '[Trash Info]\nPath =%s\nPath=%s\nDeletionDate=%s\n' % ('/wrong', path, date)
    return t, v, path


def gen(rng, n):
    scns, metas = [], []
    for i in range(n):
        own = rng.random() < 0.3
        lay = scen.Layout(rng, home_on_own_volume=own, nested=False, xdg='unset')
        dirs = [(lay.home_trash, 'home')]
        for v in lay.vols:
            if lay.top[v][1] == 'dir':
                dirs.append((lay.top2(v), 'top2'))
            if lay.top[v][0] == 'sticky':
                dirs.append((lay.top1(v), 'top1'))
        user = None
        linked = None
        if rng.random() < 0.2:
            user = rng.choice([lay.home + '/mytrash', (lay.vols[0] + '/sub/mytrash') if lay.vols else '/mytrash'])
            dirs = [(user, 'user')]
            if lay.vols and rng.random() < 0.4:
                # the user's trash directory is named through a symbolic link that lives on another volume than the directory: every
                # command attaches the volume of the NAME it was given (nobody resolves it)
                real = lay.vols[0] + '/.realtd'
                user = lay.home + '/tdlink'
                linked = real
                dirs = [(user, 'user')]
        nodes, ents = [], []
        if linked:
            nodes += [['d', linked, 0o700], ['l', user, linked]]
        for k in range(rng.randint(1, 4)):
            td, kind = rng.choice(dirs)
            rel = (kind != 'home') if rng.random() < 0.8 else (kind == 'home')
            t, variant, raw = contents(rng, rel, k)
            name = 'e%d' % k
            nodes += scen.entry(td, name, 'x', None, 'f', info_override=t)
            ents.append({'td': td, 'kind': kind, 'name': name, 'variant': variant, 'rel': rel, 'raw': raw})
        tdopt = ['--trash-dir', user] if user else []
        steps = [{'cmd': 'list', 'argv': list(tdopt), 'listdir': 'sorted'},
                 {'cmd': 'restore', 'argv': ['/'] + list(tdopt), 'stdin': '\n', 'listdir': 'sorted'}]
        bind = None
        if not user and rng.random() < 0.2:
            # a volume that is in the mount table but is no mount point for os.path.ismount (a bind mount within one file system): the
            # entries of its $topdir/.Trash-$uid are relative to the $topdir under which the directory was FOUND, for every command
            bind = '/bindv'
            for k in range(rng.randint(1, 2)):
                t, variant, raw = contents(rng, True, 10 + k)
                nodes += scen.entry(bind + '/.Trash-%d' % lay.uid, 'b%d' % k, 'x', None, 'f', info_override=t)
                ents.append({'td': bind + '/.Trash-%d' % lay.uid, 'kind': 'top2', 'name': 'b%d' % k, 'variant': variant, 'rel': True})
        scn = lay.scenario(steps, cwd='/', extra=nodes + scen.canary())
        if bind:
            scn['env']['TRASH_VOLUMES'] = scn['env'].get('TRASH_VOLUMES', '/') + ':' + bind
            scn['steps'][1]['listed_mounts'] = ['/'] + sorted(scn.get('mounts') or []) + [bind]
        scns.append(scn)
        metas.append({'ents': ents, 'own': own, 'user': user, 'home_trash': lay.home_trash})
        scn['judge_meta'] = metas[-1]                     # so that a replay judges the same way
    return scns, metas


def parse_list(out):
    rows = []
    for ln in out.split('\n'):
        if len(ln) >= 20 and ln[19] == ' ':
            rows.append((ln[:19], ln[20:]))
    return rows


def parse_restore(out):
    rows = []
    for l in out.split('\n'):
        if l[:4].strip().isdigit() and len(l) > 5 and l[4] == ' ':
            rest = l[5:]
            rows.append((rest[:19], rest[20:]) if not rest.startswith('None ') else ('None', rest[5:]))
    return rows


def judge(run, scn, meta, res, followups, section='state'):
    lst, rst = res['steps'][0], res['steps'][1]
    case = {'scenario': scn, 'meta': {k: v for k, v in meta.items() if k != 'ents'}, 'variants': [e['variant'] for e in meta['ents']],
            'list_out': esc(lst['stdout'][-500:]), 'restore_out': esc(rst['stdout'][-500:]), 'list_err': lst['stderr'][-200:]}
    run.count(section)
    if lst['exit'] != 0 or lst['exc'] or rst['exc']:
        run.fail('oracle', 'a reader aborted on a generated .trashinfo', case, key='reader-aborted', section=section)
        return
    L = parse_list(lst['stdout'])
    R = parse_restore(rst['stdout'])
    # names with an embedded newline split a record: compare as multisets of whole outputs instead
    if any('%0A' in str(e) for e in scn['tree'] if e[0] == 'f' and '/info/' in e[1]):
        run.nontriv(('newline-in-path',))
        return
    lp = sorted(p for d, p in L)
    rp = sorted(p for d, p in R)
    if lp != rp:
        key = 'paths-differ'
        if meta['own'] and any(e['kind'] == 'home' and e['rel'] for e in meta['ents']):
            key = 'home-trash-relative-path-base'
        run.fail('oracle', 'trash-list and trash-restore disagree on the original location of an entry',
                 dict(case, list_paths=[esc(p) for p in lp], restore_paths=[esc(p) for p in rp]), key=key, section=section)
        return
    # ... and that location is the Path value percent-decoded (nothing else is an escape: a '+' is a '+')
    from urllib.parse import unquote
    for e in meta['ents']:
        dec = unquote(e.get('raw') or '')
        if dec and not any(p.endswith(dec) for p in lp):
            run.fail('oracle', 'the location the readers agree on is not the percent-decoded Path value', dict(case, raw=e['raw'], decoded=esc(dec),
                     listed=[esc(p) for p in lp]), key='location-not-decoded', section=section)
            return
    ld = sorted((p, d.replace('????-??-?? ??:??:??', 'None')) for d, p in L)
    rd = sorted((p, d) for d, p in R)
    if ld != rd:
        run.fail('oracle', 'trash-list and trash-restore disagree on the deletion date of an entry', dict(case, list=ld, restore=rd), key='dates-differ', section=section)
    for e in meta['ents']:
        run.nontriv((e['variant'], e['kind'], meta['own'], e['rel']))
    followups.append((scn, meta, L))


def followup_runs(run, followups, section='state-rm-empty'):
    """trash-rm on exactly the listed path, trash-empty DAYS around the listed date, each on a copy of the tree"""
    rng = run.rng
    scns, infos = [], []
    for scn, meta, L in followups:
        if not L:
            continue
        d, p = rng.choice(L)
        if any(ch in p for ch in '*?[') or not p.startswith('/'):
            continue
        tdopt = ['--trash-dir', meta['user']] if meta['user'] else []
        if not meta['user']:
            s = copy.deepcopy(scn)
            s['steps'] = [{'cmd': 'rm', 'argv': [p], 'listdir': 'sorted'}, {'cmd': 'list', 'argv': [], 'listdir': 'sorted'}]
            scns.append(s)
            infos.append(('rm', d, p, L))
            s['judge_meta'] = {'followup': infos[-1]}
        for delta, must in ((1, True), (0, False)):
            s = copy.deepcopy(scn)
            if d.startswith('?'):
                now = '2030-01-01T00:00:00'
                must_go = False
            else:
                dt = datetime.datetime.strptime(d, '%Y-%m-%d %H:%M:%S') + datetime.timedelta(days=3, seconds=delta)
                now = dt.strftime(FMT)
                must_go = must
            s['steps'] = [{'cmd': 'empty', 'argv': ['3', '-f'] + tdopt, 'env': {'TRASH_DATE': now}, 'listdir': 'sorted'},
                          {'cmd': 'list', 'argv': list(tdopt), 'listdir': 'sorted'}]
            scns.append(s)
            infos.append(('empty', d, p, L, must_go))
            s['judge_meta'] = {'followup': infos[-1]}
    out = engine.run_all(run, 'rm-empty', scns)
    idx = {id(s): i for i, s in enumerate(scns)}
    for scn, res in out:
        judge_followup(run, scn, infos[idx[id(scn)]], res, section)


def judge_followup(run, scn, inf, res, section):
    run.count(section)
    after = parse_list(res['steps'][1]['stdout'])
    before = [tuple(x) for x in inf[3]]
    case = {'scenario': scn, 'target': [inf[1], esc(inf[2])], 'listed_before': before, 'listed_after': after, 'stderr': res['steps'][0]['stderr'][-300:]}
    if inf[0] == 'rm':
        want = [x for x in before if x[1] != inf[2]]
        if sorted(after) != sorted(want):
            run.fail('oracle', 'trash-rm given exactly the path trash-list prints did not remove exactly the entries with that path', case,
                     key='rm-disagrees-with-list', section=section)
    else:
        must_go = inf[4]
        gone = (inf[1], inf[2]) not in after or before.count((inf[1], inf[2])) > after.count((inf[1], inf[2]))
        if gone != must_go:
            run.fail('oracle', 'trash-empty DAYS does not decide by the date trash-list shows for the entry',
                     dict(case, must_go=must_go), key='empty-disagrees-with-list', section=section)


def run(run, thorough):
    fn_codec.quote_unquote(run, thorough)
    ds = fn_codec.dates(run, thorough)
    fn_codec.trashinfo(run, thorough, ds)
    scns, metas = gen(run.rng, 500 if not thorough else 6000)
    out = engine.run_all(run, 'list+restore', scns)
    by_id = {id(s): m for s, m in zip(scns, metas)}
    followups = []
    for scn, res in out:
        judge(run, scn, by_id[id(scn)], res, followups)
    followup_runs(run, followups)
    # the known finding, deterministically
    t = [['d', '/hv/home/u', 0o755]] + scen.entry('/hv/home/u/.local/share/Trash', 'a', 'some/rel', '2024-01-01T00:00:00', 'f')
    known = {'tree': t, 'mounts': ['/hv'], 'cwd': '/', 'uid': 0, 'env': {'HOME': '/hv/home/u', 'TRASH_VOLUMES': '/:/hv'},
             'steps': [{'cmd': 'list', 'argv': []}, {'cmd': 'restore', 'argv': ['/'], 'stdin': '\n'}]}
    r = sandbox.execute(known)
    run.count('known-finding-probe')
    if sorted(p for d, p in parse_list(r['steps'][0]['stdout'])) != sorted(p for d, p in parse_restore(r['steps'][1]['stdout'])):
        run.fail('oracle', 'a relative Path in a home trash that is not on the root volume: trash-list and trash-restore resolve it against different bases',
                 {'scenario': known, 'list': r['steps'][0]['stdout'], 'restore': r['steps'][1]['stdout']}, key='home-trash-relative-path-base',
                 section='known-finding-probe')
    if out:
        run.sample({'level': 'state', 'variants': [e['variant'] for e in metas[0]['ents']], 'dirs': [e['kind'] for e in metas[0]['ents']]})


def replay(run, payload):
    case = payload.get('case') or {}
    if 'args_tok' in case:
        from common import model_batch
        rep = model_batch([(case['function'], case['args_tok'])])[0]
        print('model:', rep, 'impl recorded:', case.get('impl'))
        if rep != case.get('impl'):
            run.fail('tie', 'function-level disagreement persists', case)
        return
    scn = case.get('scenario')
    if not scn:
        return
    res = sandbox.execute(scn)
    for st, o in zip(scn['steps'], res['steps']):
        print(st['cmd'], st['argv'], 'exit', o['exit'], 'exc', o['exc'])
        print(esc(o['stdout'][:600]))
        print(esc(o['stderr'][:300]))
    jm = scn.get('judge_meta')
    if jm and 'followup' in jm:
        judge_followup(run, scn, jm['followup'], res, 'replay')
        return
    if jm and 'ents' in jm and len(res['steps']) >= 2:
        judge(run, scn, jm, res, [], section='replay')
        return
    if len(scn['steps']) == 2 and scn['steps'][0]['cmd'] == 'list' and scn['steps'][1]['cmd'] == 'restore':
        if sorted(p for d, p in parse_list(res['steps'][0]['stdout'])) != sorted(p for d, p in parse_restore(res['steps'][1]['stdout'])):
            run.fail('oracle', 'trash-list and trash-restore disagree on the original location', case, key=payload.get('key'))
