"""trash-put scenarios and the conservation oracle shared by C01, C05, C16, C17, C18, C07."""
import os

import engine
import sandbox
import scen
from common import esc


def gen_put(rng, nargs=None, allow_dots=True, allow_missing=True, allow_mount=True, options=True, layout=None, allow_bad_utf8=True,
            trailing=True):
    """returns (scenario, meta); meta['args'] = [{arg, kind, entry (absolute path of the designated entry or None), expect}]"""
    lay = layout or scen.Layout(rng)
    nodes, vs = scen.victims(rng, lay, n=rng.randint(1, 4) if nargs is None else nargs)
    cwd = rng.choice([lay.home, '/', lay.vols[0] if lay.vols else '/', vs[0]['parent']])
    nodes.append(['d', cwd, 0o755])
    args = []
    seen = set()
    for v in vs:
        if v['path'] in seen:
            continue
        seen.add(v['path'])
        sp = scen.spelling(rng, v, cwd) if trailing else v['path']
        if v['kind'] in ('lf', 'ld', 'lx') and sp.endswith('/'):
            sp = sp.rstrip('/')
        args.append({'arg': sp, 'kind': v['kind'], 'entry': v['path'], 'expect': 'trash'})
    r = rng.random()
    if allow_missing and r < 0.25:
        args.insert(rng.randint(0, len(args)), {'arg': rng.choice(['/nonexistent', 'missing', lay.home + '/nope/x', '', '']), 'kind': 'missing', 'entry': None, 'expect': 'missing'})
    if allow_dots and rng.random() < 0.2:
        d = rng.choice(['.', '..', './', '../', './.', cwd + '/.', cwd + '/..', './/', '..//'])
        args.insert(rng.randint(0, len(args)), {'arg': d, 'kind': 'dot', 'entry': None, 'expect': 'refuse'})
    free_vols = [m for m in lay.vols if not any(engine.under(v['path'], m) for v in vs) and not engine.under(cwd, m)
                 and not any(engine.under(x, m) and x != m for x in lay.mounts)]
    if allow_mount and free_vols and rng.random() < 0.15:
        m = rng.choice(free_vols)
        nodes.append(['f', m + '/keep_me', 'on the volume'])
        spelled = m + rng.choice(['', '/'])
        if cwd == '/' and rng.random() < 0.5:
            spelled = rng.choice(['', './']) + spelled.lstrip('/')        # the mount point named relative to the working directory
        args.insert(rng.randint(0, len(args)), {'arg': spelled, 'kind': 'mount', 'entry': m, 'expect': 'refuse-untouched'})
    if allow_bad_utf8 and rng.random() < 0.12:
        bad = lay.home + '/bad\udcff\udcfe'
        nodes.append(['f', bad, 'undecodable name'])
        args.insert(rng.randint(0, len(args)), {'arg': bad, 'kind': 'badutf8', 'entry': bad, 'expect': 'fail-untouched'})
    # names already taken in the trash directories the victims can go to: complete entries, payloads without info
    # (file, directory, dangling link), infos without payload
    if rng.random() < 0.35 or any(len(os.fsencode(v['name'])) > 245 for v in vs):
        for v in vs:
            if rng.random() < 0.6 and len(os.fsencode(v['name'])) <= 245:
                continue
            tds = [lay.home_trash]
            for m in lay.all_vols:
                if engine.under(v['path'], m):
                    if lay.top1_can_hold(m):
                        tds.append(lay.top1(m))
                    if lay.top[m][1] == 'dir':
                        tds.append(lay.top2(m))
            for td in tds:
                names_taken = [v['name']] + ([v['name'] + '_1'] if rng.random() < 0.5 else [])
                if len(os.fsencode(v['name'])) + 10 > 255:
                    # the shortened names trash-put will try: <name cut by len(suffix + '.trashinfo')> + suffix
                    cut = lambda sfx: v['name'][:len(v['name']) - len(sfx) - 10] + sfx        # Python slicing on characters, like the code
                    names_taken = [cut('_1')] + ([cut('_2')] if rng.random() < 0.5 else [])
                for nm in names_taken:
                    k = rng.choice(['pair', 'pair_l', 'orphan_f', 'orphan_d', 'orphan_l', 'info_only'])
                    if k == 'pair':
                        nodes += scen.entry(td, nm, '/old/' + nm, '2001-01-01T00:00:00', rng.choice(['f', 'd']))
                    elif k == 'pair_l':
                        # a complete entry whose payload is a dangling symbolic link: os.path.exists() does not see it
                        nodes += scen.entry(td, nm, '/old/' + nm, '2001-01-01T00:00:00', 'l', data='dangling/target')
                    elif k == 'orphan_f':
                        nodes += [['f', td + '/files/' + nm, 'old orphan'], ['d', td + '/info', 0o700]]
                    elif k == 'orphan_d':
                        nodes += [['d', td + '/files/' + nm, 0o755], ['f', td + '/files/' + nm + '/old', 'old'], ['d', td + '/info', 0o700]]
                    elif k == 'orphan_l':
                        nodes += [['l', td + '/files/' + nm, 'dangling/target'], ['d', td + '/info', 0o700]]
                    else:
                        nodes += [['f', td + '/info/' + nm + '.trashinfo', scen.TI % ('/old/' + nm, '2001-01-01T00:00:00')], ['d', td + '/files', 0o700]]
    argv = []
    mode = 'plain'
    stdin = None
    if options:
        r = rng.random()
        if r < 0.2:
            argv.append('-f')
            mode = 'force'
        elif r < 0.35:
            argv.append('-i')
            mode = 'interactive'
            # sometimes fewer replies than prompts: end of input at a prompt is a "no" (fix 0230f49), the run goes on
            stdin = ''.join(rng.choice(['y\n', 'n\n', 'Y\n', '\n', 'yes\n', 'x\n']) for _ in range(rng.choice([len(args) + 1, len(args) + 1, 1, 0, len(args) // 2])))
        if rng.random() < 0.3:
            argv.append(rng.choice(['-v', '-vv']))
        if rng.random() < 0.15:
            argv.append('--home-fallback')
    env = {}
    if '--home-fallback' in argv and rng.random() < 0.7:
        env['TRASH_ENABLE_HOME_FALLBACK'] = '1'
    if rng.random() < 0.12:
        # variables that mean something to OTHER commands (trash-empty's test clock) or to the C library (a time zone with daylight
        # saving in force on the day of the run) mean nothing to trash-put: the DeletionDate is the local time of day of the clock
        env = dict(env, **rng.choice([{'TRASH_DATE': '2001-01-01T00:00:00'}, {'TZ': 'XST5XDT,M3.2.0,M11.1.0'}, {'TZ': 'XST-1XDT,M2.3.0/2,M10.5.0/3'}]))
    step = {'cmd': 'put', 'argv': argv + ['--'] + [a['arg'] for a in args], 'now': [2024, 5, 6, 7, 8, 9, 0], 'stdin': stdin, 'env': env,
            'randints': [rng.randint(0, 65535) for _ in range(8)]}
    scn = lay.scenario([step], cwd=cwd, extra=nodes)
    meta = {'args': args, 'mode': mode, 'cwd': cwd, 'lay_home_trash': lay.home_trash, 'mounts': list(lay.mounts)}
    scn['judge_meta'] = meta            # travels with the scenario into a replay file: the replay judges with what the run judged with
    return scn, meta


def new_trash_items(before, after):
    """(new pairs, stray infos, orphan payloads) that appeared in any trash directory: lists of (td, name)"""
    pairs, strays, orphans = [], [], []
    for td in engine.trash_dirs_in(after):
        eb = engine.entries_of(before, td)
        ea = engine.entries_of(after, td)
        for name, e in ea.items():
            b = eb.get(name, {'info': None, 'payload': None})
            new_info = e['info'] is not None and b['info'] is None
            # a payload that replaced an orphan which os.path.exists cannot see (a dangling symlink) is new as well
            new_pay = e['payload'] is not None and (b['payload'] is None or (new_info and b['payload'] != e['payload']))
            if new_info and new_pay:
                pairs.append((td, name))
            elif new_info:
                strays.append((td, name))
            elif new_pay:
                orphans.append((td, name))
    return pairs, strays, orphans


def loose(t):
    """a subtree without the mtime of its top node when that is a directory, and without the mtime of symbolic links
    (shutil.move recreates a link on another device with os.symlink: a link's own timestamp is not content)"""
    return {p: (v[:3] if (p == '' and v[0] == 'd') or v[0] == 'l' else v) for p, v in t.items()}


def _without_skeleton(now, orig):
    """`now` minus the EMPTY trash-directory skeleton (<td>, <td>/files, <td>/info) a refused attempt created on demand inside
    the entry (a mount point given as argument): reading decision 1 of DESIGN 8.21"""
    import re
    out = dict(now)
    new_dirs = [p for p, v in now.items() if p not in orig and v[0] == 'd']
    for p in sorted(new_dirs, key=len, reverse=True):
        if re.search(r'/\.Trash(-\d+|/\d+)?(/files|/info)?$', p) and not any(q != p and q.startswith(p + '/') for q in out):
            del out[p]
    return out


def _nodirtime(t):
    # directories get a new mtime when the skeleton is created in them
    return {p: (v[:3] if v[0] in ('d', 'l') else v) for p, v in t.items()}


def recorded_location_ok(info, td, ent_p, meta):
    """Path= of a new entry: absolute original location in the home trash; relative to the top directory in $top/.Trash/$uid and
    $top/.Trash-$uid ('/' as top directory included)"""
    import re
    from urllib.parse import unquote_to_bytes
    line = [l for l in bytes(info).split(b'\n') if l.startswith(b'Path=')]
    if not line:
        return False
    val = os.fsdecode(unquote_to_bytes(line[0][5:]))
    if td == meta.get('lay_home_trash'):
        return val == ent_p
    m = re.match(r'^(.*)/\.Trash(-\d+|/\d+)$', td)
    if not m:
        return True                                 # some other directory (--trash-dir): not judged here
    top = m.group(1) or '/'
    return not val.startswith('/') and os.path.join(top, val) == ent_p


def conservation(run, scn, meta, res, section, step_index=0, allow_stray_if_refused=False, prop='C01'):
    """the C01 dichotomy on one finished trash-put run; returns per-argument outcomes ['trashed'|'untouched'|'violated']"""
    before = res['before'] if step_index == 0 else res['steps'][step_index - 1]['after']
    o = res['steps'][step_index]
    after = o['after']
    case = {'scenario': scn, 'exit': o['exit'], 'exc': o['exc'], 'stderr': o['stderr'][-700:]}
    pairs, strays, orphans = new_trash_items(before, after)
    outcomes = []
    used = set()
    for a in meta['args']:
        ent = a['entry']
        if ent is None:
            outcomes.append('none')
            continue
        ent_p = engine.physical(before, ent)
        orig = sandbox.subtree(before, ent_p)
        now = sandbox.subtree(after, ent_p)
        if not orig:
            outcomes.append('none')
            continue
        found = None
        cands = [(td, name) for td, name in pairs if (td, name) not in used
                 and loose(sandbox.subtree(after, td + '/files/' + name)) == loose(orig)]
        # several arguments can have identical content: prefer the pair whose info names this argument
        for td, name in cands:
            inf = engine.entries_of(after, td)[name]['info']
            if engine.info_parseable(inf) and recorded_location_ok(inf, td, ent_p, meta):
                found = (td, name)
                break
        if found is None and cands:
            found = cands[0]
        if found and not now:
            used.add(found)
            info = engine.entries_of(after, found[0])[found[1]]['info']
            if not engine.info_parseable(info):
                run.fail('oracle', 'the .trashinfo of a trashed entry is not complete/parseable',
                         dict(case, arg=esc(a['arg']), info=esc(info) if isinstance(info, bytes) else info), key='bad-info', section=section)
                outcomes.append('violated')
            elif not recorded_location_ok(info, found[0], ent_p, meta):
                run.fail('oracle', 'the Path recorded for a trashed entry is not its original location in the form the spec prescribes for this '
                         'trash directory (absolute in the home trash, relative to the top directory elsewhere)',
                         dict(case, arg=esc(a['arg']), trash_dir=found[0], info=esc(info), entry=esc(ent_p)), key='bad-path', section=section)
                outcomes.append('violated')
            else:
                outcomes.append('trashed')
        elif now == orig or loose(now) == loose(orig) or _nodirtime(_without_skeleton(now, orig)) == _nodirtime(orig):
            outcomes.append('untouched')
        else:
            run.fail('oracle', 'an argument of trash-put is neither fully trashed nor untouched',
                     dict(case, arg=esc(a['arg']), kind=a['kind'], at_origin=len(now), originally=len(orig),
                          new_pairs=[(t, esc(n)) for t, n in pairs], orphans=[(t, esc(n)) for t, n in orphans]),
                     key='half-trashed:' + a['kind'], section=section)
            outcomes.append('violated')
    # what was in the trash before stays exactly as it was (trash-put only adds): entries with an info file always; payloads
    # without info too, unless they are invisible to os.path.exists (a dangling symbolic link: stated exception, C04)
    for td in engine.trash_dirs_in(before):
        eb, ea = engine.entries_of(before, td), engine.entries_of(after, td)
        for name, e in eb.items():
            if ea.get(name) == e:
                continue
            if (e['info'] is None and e['payload'] is not None and list(e['payload'].values())[0][0] == 'l'
                    and (ea.get(name) or {}).get('info') is not None):
                continue                      # replaced by the payload of a new, complete entry of that name
            run.fail('oracle', 'trash-put changed or removed something that was already in the trash',
                     dict(case, trash_dir=td, entry=esc(name), before=str(e)[:200], after=str(ea.get(name))[:200]),
                     key='existing-entry-changed', section=section)
            break
    left = [p for p in pairs if p not in used]
    if orphans:
        run.fail('oracle', 'trash-put left a payload without .trashinfo in a trash directory',
                 dict(case, orphans=[(t, esc(n)) for t, n in orphans]), key='orphan-payload', section=section)
    if strays and not allow_stray_if_refused:
        run.fail('oracle', 'trash-put left a .trashinfo without payload (stray info)',
                 dict(case, strays=[(t, esc(n)) for t, n in strays]), key='stray-info', section=section)
    if left:
        run.fail('oracle', 'a new trash entry does not correspond to any argument',
                 dict(case, extra=[(t, esc(n)) for t, n in left]), key='unexplained-entry', section=section)
    # nothing else changed: outside the arguments' subtrees and the trash directories
    ents = [engine.physical(before, a['entry']) for a in meta['args'] if a['entry']]
    tds = engine.trash_dirs_in(after)
    def expected_area(p):
        if any(engine.under(p, e) for e in ents):
            return True
        if any(engine.under(p, td) for td in tds):
            return True
        # the chain of directories created on the way to a trash directory (also an empty skeleton left by a refused attempt)
        if any(engine.under(td, p) for td in tds) and p not in before:
            return True
        import re
        v = after.get(p)
        return p not in before and v is not None and v[0] == 'd' and re.search(r'/(\.Trash(-\d+|/\d+)?|Trash|\.local|share|xdg)(/files|/info)?$', p) is not None
    other = [p for p in engine.changed_paths(before, after) if not expected_area(p)]
    # parents of trashed entries get a new mtime: ignored by changed_paths (dir mtimes), so anything left is a real change
    if other:
        run.fail('oracle', 'trash-put changed something that is neither an argument nor a trash directory',
                 dict(case, changed=[(esc(p), before.get(p), after.get(p)) for p in other[:6]]), key='collateral-change', section=section)
    return outcomes
