"""trash-put scenarios and the conservation oracle shared by C01, C05, C16, C17, C18, C07."""
import os

import engine
import sandbox
import scen
from common import esc


def gen_put(rng, nargs=None, allow_dots=True, allow_missing=True, allow_mount=True, options=True, layout=None, allow_bad_utf8=True,
            trailing=True):
    """returns (scenario, meta); meta['args'] = [{arg, kind, entry (absolute path of the designated entry or None), expect}]"""
    lay = layout or scen.Layout(rng)
    nodes, vs = scen.victims(rng, lay, n=rng.randint(1, 4) if nargs is None else nargs)
    cwd = rng.choice([lay.home, '/', lay.vols[0] if lay.vols else '/', vs[0]['parent']])
    nodes.append(['d', cwd, 0o755])
    args = []
    seen = set()
    for v in vs:
        if v['path'] in seen:
            continue
        seen.add(v['path'])
        sp = scen.spelling(rng, v, cwd) if trailing else v['path']
        if v['kind'] in ('lf', 'ld', 'lx') and sp.endswith('/'):
            sp = sp.rstrip('/')
        args.append({'arg': sp, 'kind': v['kind'], 'entry': v['path'], 'expect': 'trash'})
    r = rng.random()
    if allow_missing and r < 0.25:
        args.insert(rng.randint(0, len(args)), {'arg': rng.choice(['/nonexistent', 'missing', lay.home + '/nope/x']), 'kind': 'missing', 'entry': None, 'expect': 'missing'})
    if allow_dots and rng.random() < 0.2:
        d = rng.choice(['.', '..', './', '../', './.', cwd + '/.', cwd + '/..', './/', '..//'])
        args.insert(rng.randint(0, len(args)), {'arg': d, 'kind': 'dot', 'entry': None, 'expect': 'refuse'})
    if allow_mount and lay.vols and rng.random() < 0.1:
        m = rng.choice(lay.vols)
        nodes.append(['f', m + '/keep_me', 'on the volume'])
        args.insert(rng.randint(0, len(args)), {'arg': m + rng.choice(['', '/']), 'kind': 'mount', 'entry': m, 'expect': 'refuse-untouched'})
    if allow_bad_utf8 and rng.random() < 0.12:
        bad = lay.home + '/bad\udcff\udcfe'
        nodes.append(['f', bad, 'undecodable name'])
        args.insert(rng.randint(0, len(args)), {'arg': bad, 'kind': 'badutf8', 'entry': bad, 'expect': 'fail-untouched'})
    argv = []
    mode = 'plain'
    stdin = None
    if options:
        r = rng.random()
        if r < 0.2:
            argv.append('-f')
            mode = 'force'
        elif r < 0.35:
            argv.append('-i')
            mode = 'interactive'
            stdin = ''.join(rng.choice(['y\n', 'n\n', 'Y\n', '\n', 'yes\n', 'x\n']) for _ in range(len(args) + 1))
        if rng.random() < 0.3:
            argv.append(rng.choice(['-v', '-vv']))
        if rng.random() < 0.15:
            argv.append('--home-fallback')
    env = {}
    if '--home-fallback' in argv and rng.random() < 0.7:
        env['TRASH_ENABLE_HOME_FALLBACK'] = '1'
    step = {'cmd': 'put', 'argv': argv + ['--'] + [a['arg'] for a in args], 'now': [2024, 5, 6, 7, 8, 9, 0], 'stdin': stdin, 'env': env,
            'randints': [rng.randint(0, 65535) for _ in range(8)]}
    scn = lay.scenario([step], cwd=cwd, extra=nodes)
    return scn, {'args': args, 'mode': mode, 'cwd': cwd, 'lay_home_trash': lay.home_trash, 'mounts': list(lay.mounts)}


def new_trash_items(before, after):
    """(new pairs, stray infos, orphan payloads) that appeared in any trash directory: lists of (td, name)"""
    pairs, strays, orphans = [], [], []
    for td in engine.trash_dirs_in(after):
        eb = engine.entries_of(before, td)
        ea = engine.entries_of(after, td)
        for name, e in ea.items():
            b = eb.get(name, {'info': None, 'payload': None})
            new_info = e['info'] is not None and b['info'] is None
            new_pay = e['payload'] is not None and b['payload'] is None
            if new_info and new_pay:
                pairs.append((td, name))
            elif new_info:
                strays.append((td, name))
            elif new_pay:
                orphans.append((td, name))
    return pairs, strays, orphans


def loose(t):
    """a subtree without the mtime of its top node when that is a directory (moving it across devices re-stamps nothing, but
    removing children does)"""
    return {p: (v if not (p == '' and v[0] == 'd') else v[:3]) for p, v in t.items()}


def conservation(run, scn, meta, res, section, step_index=0, allow_stray_if_refused=False, prop='C01'):
    """the C01 dichotomy on one finished trash-put run; returns per-argument outcomes ['trashed'|'untouched'|'violated']"""
    before = res['before'] if step_index == 0 else res['steps'][step_index - 1]['after']
    o = res['steps'][step_index]
    after = o['after']
    case = {'scenario': scn, 'exit': o['exit'], 'exc': o['exc'], 'stderr': o['stderr'][-700:]}
    pairs, strays, orphans = new_trash_items(before, after)
    outcomes = []
    used = set()
    for a in meta['args']:
        ent = a['entry']
        if ent is None:
            outcomes.append('none')
            continue
        ent_p = engine.physical(before, ent)
        orig = sandbox.subtree(before, ent_p)
        now = sandbox.subtree(after, ent_p)
        if not orig:
            outcomes.append('none')
            continue
        found = None
        for td, name in pairs:
            if (td, name) in used:
                continue
            if loose(sandbox.subtree(after, td + '/files/' + name)) == loose(orig):
                found = (td, name)
                break
        if found and not now:
            used.add(found)
            info = engine.entries_of(after, found[0])[found[1]]['info']
            if not engine.info_parseable(info):
                run.fail('oracle', 'the .trashinfo of a trashed entry is not complete/parseable',
                         dict(case, arg=esc(a['arg']), info=esc(info) if isinstance(info, bytes) else info), key='bad-info', section=section)
                outcomes.append('violated')
            else:
                outcomes.append('trashed')
        elif now == orig or loose(now) == loose(orig):
            outcomes.append('untouched')
        else:
            run.fail('oracle', 'an argument of trash-put is neither fully trashed nor untouched',
                     dict(case, arg=esc(a['arg']), kind=a['kind'], at_origin=len(now), originally=len(orig),
                          new_pairs=[(t, esc(n)) for t, n in pairs], orphans=[(t, esc(n)) for t, n in orphans]),
                     key='half-trashed:' + a['kind'], section=section)
            outcomes.append('violated')
    left = [p for p in pairs if p not in used]
    if orphans:
        run.fail('oracle', 'trash-put left a payload without .trashinfo in a trash directory',
                 dict(case, orphans=[(t, esc(n)) for t, n in orphans]), key='orphan-payload', section=section)
    if strays and not allow_stray_if_refused:
        run.fail('oracle', 'trash-put left a .trashinfo without payload (stray info)',
                 dict(case, strays=[(t, esc(n)) for t, n in strays]), key='stray-info', section=section)
    if left:
        run.fail('oracle', 'a new trash entry does not correspond to any argument',
                 dict(case, extra=[(t, esc(n)) for t, n in left]), key='unexplained-entry', section=section)
    # nothing else changed: outside the arguments' subtrees and the trash directories
    ents = [engine.physical(before, a['entry']) for a in meta['args'] if a['entry']]
    tds = engine.trash_dirs_in(after)
    def expected_area(p):
        if any(engine.under(p, e) for e in ents):
            return True
        if any(engine.under(p, td) for td in tds):
            return True
        # the chain of directories created on the way to a trash directory
        return any(engine.under(td, p) for td in tds) and p not in before
    other = [p for p in engine.changed_paths(before, after) if not expected_area(p)]
    # parents of trashed entries get a new mtime: ignored by changed_paths (dir mtimes), so anything left is a real change
    if other:
        run.fail('oracle', 'trash-put changed something that is neither an argument nor a trash directory',
                 dict(case, changed=[(esc(p), before.get(p), after.get(p)) for p in other[:6]]), key='collateral-change', section=section)
    return outcomes
